"""entry point: ./check <Cnn> [--tier quick|thorough] | replay <file> | digest <Cnn> <seed> | setup | selftest ..."""
import os
import sys

HERE = os.path.dirname(os.path.abspath(__file__))
REPO = os.environ.get("CARDSIM_REPO", "/repo")
for p in (HERE, REPO):
    if p in sys.path:
        sys.path.remove(p)
sys.path.insert(0, HERE)
sys.path.insert(0, REPO)
sys.dont_write_bytecode = True


def main(argv):
    from cardsim import engine, sut
    if not argv:
        print(__doc__)
        return 2
    cmd = argv[0]
    if cmd == "setup":
        m = sut.load()
        os.makedirs(os.path.join(HERE, "evidence"), exist_ok=True)
        os.makedirs(os.path.join(HERE, "replays"), exist_ok=True)
        print(f"setup ok: python {sys.version.split()[0]}, cardutil from {m['cardutil'].__file__}")
        return 0
    if cmd == "replay":
        return engine.replay(argv[1])
    if cmd == "digest":
        sut.load()
        print(engine.prop_module(argv[1]).digest_slice(int(argv[2])))
        return 0
    if cmd == "runtask":
        import json
        sut.load()
        part = engine.prop_module(argv[1]).run_task(json.loads(argv[2]))
        for fl in part["fails"]:
            print("TASKFAIL " + json.dumps({"oracle": fl["oracle"], "sig": fl["sig"], "detail": fl.get("detail")}))
        return 0
    if cmd == "selftest":
        from cardsim import selftest
        return selftest.main(argv[1:])
    if cmd.upper() in engine.PROPS:
        tier = os.environ.get("VERIF_TIER", "quick")
        if "--tier" in argv:
            tier = argv[argv.index("--tier") + 1]
        if tier not in ("quick", "thorough"):
            print(f"bad tier {tier}")
            return 2
        seed = int(os.environ.get("VERIF_SEED", "0"))
        return engine.run_check(cmd.upper(), tier, seed)
    print(f"unknown command {cmd}")
    return 2


if __name__ == "__main__":
    try:
        rc = main(sys.argv[1:])
    except SystemExit:
        raise
    except BaseException:
        import traceback
        traceback.print_exc()
        print("HARNESS-ERROR: uncaught exception in the harness")
        rc = 2
    sys.exit(rc)
