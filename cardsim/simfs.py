"""Storage seam: SimFile (in-memory binary file with operation trace, crash budget), image faults, SimFS.

SimFile honours the io.BufferedIOBase contract used by everything cardutil documents
(open(..., 'rb'/'wb') and io.BytesIO): read(n) returns exactly n bytes unless end of file,
write(b) stores all of b.
"""
import io


class SimCrash(BaseException):
    """The simulated process was killed.  BaseException: no `except Exception` may swallow it."""


class SimFile:
    def __init__(self, initial: bytes = b"", crash_at=None, log=None, name="f", trace=False):
        self.buf = bytearray(initial)
        self.pos = 0
        self._closed = False
        self.dead = False
        self.accepted = 0          # cumulative bytes accepted by write()
        self.crash_at = crash_at   # kill the writer when the crash_at-th byte reaches the disk
        self.log = log
        self.name = name
        self.trace = [] if trace else None
        self.nonprefix_events = 0  # times a write landed before the end of the image (overwrite)
        self.n_ops = 0

    # -- helpers -------------------------------------------------------------------------------
    def _ev(self, op, a=0, b=0):
        self.n_ops += 1
        if self.log is not None:
            self.log.emit(self.name, op, a, b)
        if self.trace is not None:
            self.trace.append((op, a, b))

    def _check(self):
        if self.dead:
            raise SimCrash(f"{self.name}: process is dead")
        if self._closed:
            raise ValueError("I/O operation on closed file.")

    # -- file API ------------------------------------------------------------------------------
    def write(self, b) -> int:
        self._check()
        b = bytes(b)
        n = len(b)
        if self.crash_at is not None and self.accepted + n >= self.crash_at:
            keep = self.crash_at - self.accepted
            self._store(b[:keep])
            self._ev("write!", self.pos, keep)
            self.dead = True
            raise SimCrash(f"{self.name}: killed at byte {self.crash_at}")
        self._ev("write", self.pos, n)
        self._store(b)
        return n

    def _store(self, b):
        n = len(b)
        if n == 0:
            return
        if self.pos < len(self.buf):
            self.nonprefix_events += 1
        if self.pos > len(self.buf):
            self.buf.extend(b"\x00" * (self.pos - len(self.buf)))
        self.buf[self.pos:self.pos + n] = b
        self.pos += n
        self.accepted += n

    def read(self, n=-1) -> bytes:
        self._check()
        if n is None or n < 0:
            out = bytes(self.buf[self.pos:])
        else:
            out = bytes(self.buf[self.pos:self.pos + n])
        self._ev("read", self.pos, len(out))
        self.pos += len(out)
        return out

    def readinto(self, b):
        """BufferedIOBase.readinto: fills the caller's buffer, returns the number of bytes read"""
        data = self.read(len(b))
        n = len(data)
        b[:n] = data
        return n

    def seek(self, pos, whence=0):
        self._check()
        if whence == 0:
            new = pos
        elif whence == 1:
            new = self.pos + pos
        else:
            new = len(self.buf) + pos
        if new < 0:
            raise ValueError("negative seek position")
        self._ev("seek", new, 0)
        self.pos = new
        return new

    def tell(self):
        self._check()
        return self.pos

    def flush(self):
        self._check()

    def close(self):
        if self.dead:
            raise SimCrash(f"{self.name}: process is dead")
        if not self._closed:
            self._ev("close", 0, 0)
        self._closed = True

    @property
    def closed(self):
        return self._closed

    def readable(self):
        return True

    def writable(self):
        return True

    def seekable(self):
        return True

    def __enter__(self):
        self._check()
        return self

    def __exit__(self, *a):
        self.close()

    # -- simulator side ------------------------------------------------------------------------
    def getvalue(self) -> bytes:
        return bytes(self.buf)

    image = getvalue


class SimPipe(SimFile):
    """read-only, non-seekable buffered stream (a file read through a pipe / stdin / a socket wrapped in a
    BufferedReader): read(n) still returns n bytes unless end of data, but seek / tell are unsupported"""

    def seek(self, pos, whence=0):
        raise io.UnsupportedOperation("underlying stream is not seekable")

    def tell(self):
        raise io.UnsupportedOperation("underlying stream is not seekable")

    def seekable(self):
        return False

    def writable(self):
        return False

    def write(self, b):
        raise io.UnsupportedOperation("not writable")


# ---------------------------------------------------------------------------------------------
# image faults (applied by the "disk" between a writer and a later reader)
# ---------------------------------------------------------------------------------------------

def apply_fault(image: bytes, fault: dict) -> bytes:
    k = fault["kind"]
    if k == "truncate":
        return image[:fault["at"]]
    if k == "substitute":
        off = fault["off"]
        if off >= len(image):
            return image
        return image[:off] + bytes([fault["val"]]) + image[off + 1:]
    if k == "flip":
        off = fault["off"]
        if off >= len(image):
            return image
        return image[:off] + bytes([image[off] ^ (1 << fault["bit"])]) + image[off + 1:]
    if k == "insert":
        off = min(fault["off"], len(image))
        return image[:off] + bytes.fromhex(fault["hex"]) + image[off:]
    if k == "delete":
        off = fault["off"]
        return image[:off] + image[off + fault["n"]:]
    if k == "extend":
        return image + bytes.fromhex(fault["hex"])
    if k == "replace":  # replace n bytes at off by hex (directed splice)
        off = fault["off"]
        return image[:off] + bytes.fromhex(fault["hex"]) + image[off + fault["n"]:]
    raise ValueError(f"unknown fault kind {k}")


def apply_faults(image: bytes, faults) -> bytes:
    for f in faults:
        image = apply_fault(image, f)
    return image


# ---------------------------------------------------------------------------------------------
# SimFS: names -> images, for the command line tools (patched in as the module's `open`)
# ---------------------------------------------------------------------------------------------

class _TextOut(io.StringIO):
    def __init__(self, fs, name):
        super().__init__()
        self._fs = fs
        self._name = name

    def close(self):
        if not self.closed:
            self._fs.files[self._name] = self.getvalue().encode("utf-8", "replace")
        super().close()


class _BinOut(SimFile):
    def __init__(self, fs, name, log=None):
        super().__init__(b"", log=log, name=name)
        self._fs = fs

    def close(self):
        if not self._closed:
            self._fs.files[self.name] = self.getvalue()
        super().close()


class SimFS:
    def __init__(self, log=None):
        self.files = {}
        self.log = log
        self.opens = []

    def open(self, name, mode="r", encoding=None, **kw):
        self.opens.append((name, mode))
        if "b" in mode and "r" in mode:
            if name not in self.files:
                raise FileNotFoundError(name)
            return SimFile(self.files[name], log=self.log, name=name)
        if "b" in mode:
            return _BinOut(self, name, log=self.log)
        if "w" in mode:
            return _TextOut(self, name)
        if name not in self.files:
            raise FileNotFoundError(name)
        return io.StringIO(self.files[name].decode(encoding or "utf-8"))
