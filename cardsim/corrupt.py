"""Corruption scenarios shared by C07 / C08 / C10: a stored object (one message, or a VBS / 1014 file
of IPM messages) written by the real writer, damaged by the disk actor, then consumed under the
step budget.

kinds:
  msg_corrupt  {encoding, config, hex_bitmap, message, faults}
  raw_bytes    {as: 'message'|'file', bytes: spec, encoding, config, hex_bitmap, blocked, reader}
  ipm_corrupt  {encoding, config, blocked, messages, rec_faults:[{record, faults}], file_faults, reader, knobs}
"""
import copy

from . import sut, msgcodec, refmodel, refiso, decode, pipeline
from .kernel import mk_bytes
from .simfs import apply_faults


class BaseNotWritable(Exception):
    """the real writer / encoder raised on the well-formed base object: not this property's business
    (C06 / C01 territory); the scenario is skipped and counted"""


def clean_message_bytes(scn):
    m = sut.load()
    msg = msgcodec.msg_from_json(scn["message"])
    cfg = msgcodec.cfg_from_json(scn.get("config", "packaged"))
    try:
        return m["iso8583"].dumps(copy.deepcopy(msg), encoding=scn.get("encoding"), iso_config=cfg,
                                  hex_bitmap=scn.get("hex_bitmap", False))
    except Exception as ex:
        raise BaseNotWritable(f"{type(ex).__name__}: {ex}")


def message_bytes(scn):
    """faulted message bytes of a msg_corrupt / raw_bytes(message) scenario"""
    if scn["kind"] == "raw_bytes":
        return mk_bytes(scn["bytes"])
    return apply_faults(clean_message_bytes(scn), scn.get("faults") or [])


def run_message(scn, b=None):
    """-> (bytes, Outcome, Reading, effective cfg, encoding)"""
    if b is None:
        b = message_bytes(scn)
    cfgj = scn.get("config", "packaged")
    cfg = msgcodec.effective_cfg(cfgj)
    enc = scn.get("encoding") or "latin_1"
    hexb = scn.get("hex_bitmap", False)
    out = decode.run_loads(b, msgcodec.cfg_from_json(cfgj), scn.get("encoding"), hexb)
    return b, out, cfg, enc, hexb


# ---- files ----------------------------------------------------------------------------------

_clean_cache = {}


def clean_file(scn):
    """(image written by the real IpmWriter, list of raw records as found in it by the reference parser)"""
    key = (id(scn["messages"]), scn.get("encoding"), id(scn.get("config")), len(scn["messages"]))
    hit = _clean_cache.get(key)
    if hit is not None and hit[0] is scn["messages"]:
        return hit[1], hit[2]
    image, recs = _clean_file(scn)
    _clean_cache.clear()
    _clean_cache[key] = (scn["messages"], image, recs)
    return image, recs


def _clean_file(scn):
    wscn = {"kind": "vbs_pipeline", "level": "ipm", "blocked": False, "storage": "sim", "api": "write",
            "encoding": scn.get("encoding"), "config": scn.get("config", "packaged"),
            "messages": scn["messages"], "knobs": scn.get("knobs", {})}
    wr = pipeline.write_phase(wscn)
    if wr.error or wr.fin_errors:
        raise BaseNotWritable(str(wr.error or wr.fin_errors))
    recs, tail = refmodel.vbs_parse(wr.image, 10 ** 9)
    return wr.image, recs


def file_image(scn):
    """faulted image of an ipm_corrupt / raw_bytes(file) scenario, plus the per-record stored bytes
    (prefix + data) as they are in the payload stream BEFORE file-level faults"""
    if scn["kind"] == "raw_bytes":
        return mk_bytes(scn["bytes"]), None
    _, recs = clean_file(scn)
    recs = list(recs)
    for rf in scn.get("rec_faults") or []:
        k = rf["record"] - 1
        if 0 <= k < len(recs):
            recs[k] = apply_faults(recs[k], rf["faults"])
    stored = []
    stream = bytearray()
    for r in recs:
        ov = None
        for rf in scn.get("rec_faults") or []:
            if rf["record"] - 1 == len(stored) and rf.get("length_override") is not None:
                ov = rf["length_override"]
        ln = len(r) if ov is None else ov
        s = ln.to_bytes(4, "big") + r
        stored.append(s)
        stream += s
    stream += b"\x00\x00\x00\x00"
    image = refmodel.block(bytes(stream)) if scn.get("blocked") else bytes(stream)
    image = apply_faults(image, scn.get("file_faults") or [])
    return image, stored


def run_file(scn, image=None):
    if image is None:
        image, _ = file_image(scn)
    reader = scn.get("reader", "IpmReader")
    blocked = bool(scn.get("blocked"))
    maxlen = (scn.get("knobs") or {}).get("MAX_VBS_RECORD_LENGTH")
    if reader in ("VbsReader", "IpmReader"):
        out = decode.run_reader(image, reader, blocked, enc=scn.get("encoding"),
                                cfg=msgcodec.cfg_from_json(scn.get("config", "packaged")), maxlen=maxlen,
                                style=scn.get("style", "for"), pipe=bool(scn.get("pipe")))
    else:
        enc = scn.get("encoding") or "latin_1"
        fam = "ebcdic" if enc.startswith("cp") else "ascii"
        out = decode.run_tool(image, reader, blocked, fam,
                              encoding=(enc if reader == "mci_ipm_to_csv" else None),
                              cfg=msgcodec.cfg_from_json(scn.get("config", "packaged")))
    return image, out
