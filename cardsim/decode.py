"""Consumer actors for possibly-corrupted stored objects, each run inside the deterministic step
budget: loads (both bitmap renderings), VbsReader, IpmReader, and the two command line tools over
the SimFS seam."""
import contextlib
import io
import traceback

from . import sut, steps
from .simfs import SimFile, SimPipe, SimFS


class Outcome:
    __slots__ = ("kind", "value", "exc_type", "exc_text", "where", "steps", "items", "recno", "ctx",
                 "stdout", "rc", "orig_type", "exc", "errors")

    def __init__(self):
        self.kind = None      # 'dict' | 'liberr' | 'foreign' | 'budget' | 'stop' (readers) | 'rc' (tools)
        self.value = None
        self.exc_type = None
        self.exc_text = None
        self.where = None
        self.steps = 0
        self.items = []
        self.recno = None
        self.ctx = None
        self.stdout = None
        self.rc = None
        self.orig_type = None
        self.exc = None
        self.errors = []      # style 'continue': (records delivered before, record_number, context, original type)

    def brief(self):
        return {"kind": self.kind, "exc": self.exc_type, "where": self.where, "n": len(self.items or []),
                "recno": self.recno}


def _where(tb):
    """innermost frame inside the cardutil package: function name"""
    name = None
    prefix = sut.REPO
    for fs in traceback.extract_tb(tb):
        if "cardutil" in fs.filename and (fs.filename.startswith(prefix) or "/cardutil/" in fs.filename):
            name = fs.name
    return name


def run_loads(b, cfg, enc, hex_bitmap=False, limit=None) -> Outcome:
    m = sut.load()
    o = Outcome()
    bud = steps.Budget(limit or steps.budget_for(len(b)))
    try:
        with bud:
            o.value = m["iso8583"].loads(b, encoding=enc, iso_config=cfg, hex_bitmap=hex_bitmap)
        o.kind = "dict" if isinstance(o.value, dict) else "foreign"
        if o.kind == "foreign":
            o.exc_type = f"returned {type(o.value).__name__}"
    except steps.StepBudgetExceeded as ex:
        o.kind = "budget"
        o.where = ex.where
    except m["CardutilError"] as ex:
        o.kind = "liberr"
        o.exc_type = type(ex).__name__
        try:
            o.exc_text = str(ex)[:160]     # the tools print the error: it must be printable
        except Exception as ex2:
            o.kind = "foreign"
            o.exc_type = type(ex2).__name__
            o.exc_text = "str() of the library error raised"
            o.where = "__str__"
    except Exception as ex:
        o.kind = "foreign"
        o.exc_type = type(ex).__name__
        o.exc_text = _safe_str(ex)
        o.where = _where(ex.__traceback__)
    o.steps = bud.steps
    return o


def _safe_str(ex):
    try:
        return str(ex)[:160]
    except Exception:
        return "<unprintable>"


def run_reader(image, reader, blocked, enc=None, cfg=None, limit=None, maxlen=None, style="for", pipe=False) -> Outcome:
    """reader: 'VbsReader' | 'IpmReader'.  style: how the application drives the iterator -
    'for' (one for loop), 'next' (next() calls only), 'resume:j' (j records taken with next(), then a for
    loop over the same reader), 'twice:j' (a for loop left after j records, then a second for loop)"""
    m = sut.load()
    o = Outcome()
    bud = steps.Budget(limit or steps.budget_for(len(image)))
    f = SimPipe(image, name="pipe") if pipe else SimFile(image, name="disk")
    try:
        with sut.knob(maxlen):
            with bud:
                if reader == "VbsReader":
                    r = m["mciipm"].VbsReader(f, blocked=blocked)
                else:
                    r = m["mciipm"].IpmReader(f, encoding=enc, iso_config=cfg, blocked=blocked)
                def take(x):
                    o.items.append(x)
                    if len(o.items) > 200000:
                        raise steps.StepBudgetExceeded("unbounded iteration")
                if style == "continue":
                    # the application catches the error of a bad record and carries on with the same reader
                    it = iter(r)
                    while len(o.errors) < 4:
                        try:
                            take(next(it))
                        except StopIteration:
                            break
                        except m["MciIpmDataError"] as ex:
                            o.errors.append((len(o.items), ex.record_number, ex.binary_context_data,
                                             type(ex.ex).__name__ if getattr(ex, "ex", None) is not None else None))
                elif style == "next":
                    it = iter(r)
                    while True:
                        try:
                            take(next(it))
                        except StopIteration:
                            break
                elif style.startswith("resume:") or style.startswith("twice:"):
                    j = int(style.split(":")[1])
                    ended = False
                    if style.startswith("resume:"):
                        for _ in range(j):
                            try:
                                take(next(r))
                            except StopIteration:
                                ended = True
                                break
                    else:
                        if j > 0:
                            for x in r:
                                take(x)
                                if len(o.items) >= j:
                                    break
                            else:
                                ended = True
                    if not ended:
                        for x in r:
                            take(x)
                else:
                    for x in r:
                        take(x)
        o.kind = "stop"
    except steps.StepBudgetExceeded as ex:
        o.kind = "budget"
        o.where = ex.where
    except m["MciIpmDataError"] as ex:
        o.kind = "liberr"
        o.exc_type = type(ex).__name__
        o.exc_text = _safe_str(ex)
        o.recno = ex.record_number
        o.ctx = ex.binary_context_data
        o.orig_type = type(ex.ex).__name__ if getattr(ex, "ex", None) is not None else None
        o.exc = ex
    except Exception as ex:
        # includes a bare Iso8583DataError escaping IpmReader: the tools catch MciIpmDataError only
        o.kind = "foreign"
        o.exc_type = type(ex).__name__
        o.exc_text = str(ex)[:160]
        o.where = _where(ex.__traceback__)
    o.steps = bud.steps
    return o


def run_tool(image, tool, blocked, enc_family, limit=None, encoding=None, cfg=None) -> Outcome:
    """tool: 'mci_ipm_to_csv' | 'mideu'.  The tool's `open` is shadowed by SimFS.open for the call.
    cfg: a generated bit configuration handed to the tool through its --config-file option (a real
    temporary JSON file: the tools read their configuration with the builtin open of another module)"""
    import json
    import os
    import tempfile
    m = sut.load()
    o = Outcome()
    fs = SimFS()
    fs.files["in.ipm"] = image
    mod = m[tool]
    cfg_path = None
    if cfg is not None:
        fd, cfg_path = tempfile.mkstemp(prefix="cardsim-cfg-", suffix=".json")
        with os.fdopen(fd, "w") as g:
            json.dump({"bit_config": cfg, "output_data_elements": ["MTI"] + [f"DE{b}" for b in sorted(cfg, key=int)],
                       "mci_parameter_tables": {}}, g)
    bud = steps.Budget(limit or steps.budget_for(len(image)))
    out = io.StringIO()
    mod.open = fs.open
    try:
        with contextlib.redirect_stdout(out):
            with bud:
                if tool == "mci_ipm_to_csv":
                    rc = mod.cli_run(in_filename="in.ipm", out_filename="out.csv",
                                     in_encoding=encoding or ("cp500" if enc_family == "ebcdic" else "latin_1"),
                                     no1014blocking=not blocked, config_file=cfg_path, out_encoding="utf-8",
                                     debug=False)
                else:
                    rc = mod.cli_run(func=mod.extract, input="in.ipm", csvoutputfile="out.csv",
                                     sourceformat=enc_family, no1014blocking=not blocked,
                                     loglevel=None, config_file=cfg_path)
        o.kind = "rc"
        o.rc = rc
    except steps.StepBudgetExceeded as ex:
        o.kind = "budget"
        o.where = ex.where
    except BaseException as ex:  # nothing may escape a tool (SystemExit included)
        o.kind = "foreign"
        o.exc_type = type(ex).__name__
        o.exc_text = str(ex)[:160]
        o.where = _where(ex.__traceback__)
    finally:
        try:
            del mod.open
        except AttributeError:
            pass
        if cfg_path:
            try:
                os.remove(cfg_path)
            except OSError:
                pass
    o.stdout = out.getvalue()
    o.steps = bud.steps
    o.value = fs.files.get("out.csv")
    return o
