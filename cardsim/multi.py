"""`multi_actor` scenarios (C06): several reader / writer actors alive at once, each on its own file,
driven by an op-level cooperative scheduler or a line-level pre-emptive scheduler (real threads,
baton passing, pre-emption only at source-line boundaries inside cardutil frames).  Both are fully
determined by the scenario's `schedule`.
"""
import copy
import hashlib
import os
import sys
import threading

from . import sut, msgcodec, pipeline
from .kernel import mk_bytes, bsum
from .simfs import SimFile, apply_faults


class ActorDidNotTerminate(Exception):
    """an actor (or the interleaved run) hit the wall-clock backstop: non-termination is C07's ground"""


class SoloWriterFailed(Exception):
    """the real writer raised on a well-formed workload while preparing a reader's image"""


def vsum(x):
    """deterministic summary of a yielded value"""
    if isinstance(x, dict):
        return hashlib.sha1(repr(sorted(x.items())).encode("utf-8", "backslashreplace")).hexdigest()[:12]
    if isinstance(x, (bytes, bytearray)):
        return bsum(x)
    return repr(x)[:40]


def solo_image(wspec):
    """image produced beforehand by a solo writer run (for reader actors)"""
    scn = {"kind": "vbs_pipeline", "level": "ipm" if wspec["cls"] == "IpmWriter" else "vbs",
           "blocked": wspec["blocked"], "storage": "sim", "api": "write",
           "encoding": wspec.get("encoding"), "config": wspec.get("config", "packaged"),
           "messages": wspec.get("messages"), "records": wspec.get("records"),
           "knobs": {"MAX_VBS_RECORD_LENGTH": 10000}}
    wr = pipeline.write_phase(scn)
    if wr.error or wr.fin_errors:
        raise SoloWriterFailed(wr.error or wr.fin_errors[0][1:])
    return wr.image


class Actor:
    """step function over one real cardutil object; records an observation per step"""

    def __init__(self, spec, image=None, shared_cfg=None):
        self.spec = spec
        self.image = image
        self.shared_cfg = shared_cfg
        self.obs = []
        self.done = False
        self.started = False
        self.constructed = False
        self.values = []
        self.f = None
        self.MciIpmDataError = sut.load()["MciIpmDataError"]

    def _construct(self):
        """creating the reader / writer object is the actor's first operation, so the schedule also
        decides the order in which instances come into existence"""
        m = sut.load()
        spec, image = self.spec, self.image
        mc = m["mciipm"]
        cfg = msgcodec.cfg_from_json(spec.get("config", "packaged"))
        if self.shared_cfg is not None and cfg is not None:
            # callers commonly hand the same configuration dict object to several instances
            from .kernel import canon
            cfg = self.shared_cfg.setdefault(canon(cfg), cfg)
        if spec["role"] == "writer":
            self.f = SimFile(name="w")
            if spec["cls"] == "IpmWriter":
                self.items = [msgcodec.msg_from_json(x) for x in spec["messages"]]
                self.obj = mc.IpmWriter(self.f, encoding=spec.get("encoding"), iso_config=cfg, blocked=spec["blocked"])
            else:
                self.items = [mk_bytes(x) for x in spec["records"]]
                self.obj = mc.VbsWriter(self.f, blocked=spec["blocked"])
            self.i = 0
        else:
            self.f = SimFile(image, name="r")
            if spec["cls"] == "IpmReader":
                self.obj = mc.IpmReader(self.f, encoding=spec.get("encoding"), iso_config=cfg, blocked=spec["blocked"])
            else:
                self.obj = mc.VbsReader(self.f, blocked=spec["blocked"])
            self.it = iter(self.obj)
        self.constructed = True

    def midfile(self):
        return self.started and not self.done

    def step(self):
        if self.done:
            return False
        if not self.constructed:
            self._construct()
            self.obs.append(("new",))
            return True
        self.started = True
        if self.spec["role"] == "writer":
            chunk = self.spec.get("write_many")
            if chunk and self.i < len(self.items):
                # the application hands the writer several items at once (write_many over an iterable); an
                # item the encoder refuses aborts the call part-way and the application carries on
                part = self.items[self.i:self.i + chunk]
                try:
                    self.obj.write_many(copy.deepcopy(y) if isinstance(y, dict) else y for y in part)
                    self.obs.append(("write_many", self.i, len(part), bsum(self.f.getvalue())))
                except Exception as ex:
                    self.obs.append(("write_many", self.i, "raised", type(ex).__name__, bsum(self.f.getvalue())))
                self.i += len(part)
            elif self.i < len(self.items):
                x = self.items[self.i]
                try:
                    self.obj.write(copy.deepcopy(x) if isinstance(x, dict) else x)
                    self.obs.append(("write", self.i, bsum(self.f.getvalue())))
                except Exception as ex:
                    # the application catches the error of one bad item and carries on with the next
                    self.obs.append(("write", self.i, "raised", type(ex).__name__, bsum(self.f.getvalue())))
                self.i += 1
            else:
                try:
                    self.obj.close()
                    self.obs.append(("close", bsum(self.f.getvalue())))
                except Exception as ex:
                    self.obs.append(("close", "raised", type(ex).__name__, str(ex)[:80]))
                self.done = True
        else:
            try:
                v = next(self.it)
                self.values.append(v)
                self.obs.append(("next", vsum(v), getattr(self.obj, "record_number", None),
                                 bsum(getattr(self.obj, "last_record", None))))
                if len(self.values) > 100000:
                    self.done = True
            except StopIteration:
                self.obs.append(("stop", getattr(self.obj, "record_number", None)))
                self.done = True
            except self.MciIpmDataError as ex:
                self.obs.append(("MciIpmDataError", ex.record_number, bsum(ex.binary_context_data),
                                 type(ex.ex).__name__ if getattr(ex, "ex", None) is not None else None,
                                 getattr(self.obj, "record_number", None)))
                self.done = True
            except Exception as ex:
                self.obs.append(("foreign", type(ex).__name__, str(ex)[:80]))
                self.done = True
        return not self.done

    def run_all(self):
        while self.step():
            pass

    def final(self):
        return bsum(self.f.getvalue()) if (self.spec["role"] == "writer" and self.f is not None) else None


def build_actors(scn):
    actors = []
    shared = {} if scn.get("share_config") else None
    for spec in scn["actors"]:
        image = None
        if spec["role"] == "reader":
            image = solo_image(spec["image_from"])
            if spec.get("faults"):
                image = apply_faults(image, spec["faults"])
        actors.append(Actor(spec, image, shared))
    return actors


def run_solo(scn):
    """each actor created, executed and finished alone, one after another (own configuration object)"""
    out = []
    for a in build_actors(dict(scn, share_config=False)):
        a.run_all()
        out.append(a)
    return out


# ---------------------------------------------------------------------------------------------
# op-level cooperative scheduler
# ---------------------------------------------------------------------------------------------

def run_op_level(scn, log=None):
    """schedule: list of actor indexes; when exhausted (or naming finished actors) remaining actors
    run round-robin.  Returns (actors, stats)"""
    actors = build_actors(scn)
    sched = list(scn["schedule"]["order"])
    stats = {"switches": 0, "nontrivial_switches": 0, "ops": 0, "trace": []}
    last = None
    pos = 0
    n = len(actors)
    while not all(a.done for a in actors):
        if pos < len(sched):
            idx = sched[pos] % n
            pos += 1
            if actors[idx].done:
                continue
        else:
            b = last if last is not None else -1
            idx = next((b + d) % n for d in range(1, n + 1) if not actors[(b + d) % n].done)
        if last is not None and idx != last:
            stats["switches"] += 1
            if actors[last].midfile() and actors[idx].midfile():
                stats["nontrivial_switches"] += 1
        if log is not None:
            log.emit(f"actor{idx}", "step")
        actors[idx].step()
        stats["ops"] += 1
        stats["trace"].append(idx)
        last = idx
    return actors, stats


# ---------------------------------------------------------------------------------------------
# line-level pre-emptive scheduler: baton-passing threads
# ---------------------------------------------------------------------------------------------

class LineSched:
    def __init__(self, actors, schedule, count_only=False):
        self.actors = actors
        self.n = len(actors)
        self.switches = sorted([list(s) for s in schedule.get("switches", [])])
        self.every = schedule.get("every")          # dense mode: switch every N lines, round-robin
        self.start = schedule.get("start", 0) % self.n
        self.events = [threading.Event() for _ in actors]
        self.step = 0
        self.si = 0
        self.stats = {"switches": 0, "nontrivial_switches": 0, "points": [], "steps": 0}
        self.prefix = os.path.join(os.path.realpath(sut.REPO), "cardutil") + os.sep
        self._known = {}
        self.errors = []
        self.count_only = count_only
        self.per_actor_steps = [0] * self.n

    # -- tracing -------------------------------------------------------------------------------
    def tracer_for(self, aid):
        def local(frame, event, arg):
            if event == "line":
                self.on_line(aid, frame)
            return local

        def glob(frame, event, arg):
            fn = frame.f_code.co_filename
            k = self._known.get(fn)
            if k is None:
                rp = os.path.realpath(fn)
                k = self._known[fn] = rp.startswith(self.prefix) and "vendor" not in rp[len(self.prefix):]
            return local if k else None
        return glob

    def on_line(self, aid, frame):
        self.step += 1
        self.per_actor_steps[aid] += 1
        if self.count_only:
            return
        target = None
        if self.every:
            if self.step % self.every == 0:
                target = self._next_alive(aid)
        elif self.si < len(self.switches) and self.step >= self.switches[self.si][0]:
            target = self.switches[self.si][1] % self.n
            self.si += 1
        if target is None or target == aid or self.actors[target].done:
            return
        self.stats["switches"] += 1
        if self.actors[aid].midfile() and self.actors[target].midfile():
            self.stats["nontrivial_switches"] += 1
        if len(self.stats["points"]) < 64:
            self.stats["points"].append((aid, frame.f_code.co_name, frame.f_lineno, target))
        self.pass_baton(aid, target)

    def _next_alive(self, aid):
        for d in range(1, self.n + 1):
            j = (aid + d) % self.n
            if not self.actors[j].done:
                return j
        return None

    def pass_baton(self, aid, target):
        self.events[target].set()
        self.events[aid].wait()
        self.events[aid].clear()

    # -- threads -------------------------------------------------------------------------------
    def body(self, aid):
        self.events[aid].wait()
        self.events[aid].clear()
        sys.settrace(self.tracer_for(aid))
        try:
            self.actors[aid].run_all()
        except BaseException as ex:  # harness bug: must not hang the others
            self.errors.append((aid, repr(ex)))
            self.actors[aid].done = True
        finally:
            sys.settrace(None)
            self.actors[aid].done = True
            nxt = self._next_alive(aid)
            if nxt is not None:
                self.events[nxt].set()

    def run(self, timeout=120):
        threads = [threading.Thread(target=self.body, args=(i,), name=f"actor{i}", daemon=True)
                   for i in range(self.n)]
        for t in threads:
            t.start()
        self.events[self.start].set()
        for t in threads:
            t.join(timeout)
            if t.is_alive():
                self.errors.append(("join", "thread did not finish (wall-clock backstop)"))
                break
        self.stats["steps"] = self.step
        return self.stats


def run_line_level(scn):
    actors = build_actors(scn)
    ls = LineSched(actors, scn["schedule"])
    stats = ls.run()
    if ls.errors:
        raise RuntimeError(f"line scheduler error: {ls.errors}")
    return actors, stats


def count_steps(scn):
    """solo dry run under the tracer: traced line steps per actor (used only to place switch points)"""
    actors = build_actors(scn)
    ls = LineSched(actors, {"start": 0}, count_only=True)
    ls.run()
    return ls.per_actor_steps


# ---------------------------------------------------------------------------------------------
# pristine executions: every solo actor and every interleaved run starts from a forked copy of a
# process that has not executed any code under test, so state left behind by one instance (class /
# module level) can neither pollute the baseline nor hide in it
# ---------------------------------------------------------------------------------------------

class ActorResult:
    def __init__(self, a):
        self.spec = a.spec
        self.obs = a.obs
        self.values = a.values
        self._final = a.final()

    def final(self):
        return self._final


def _solo_one(scn, i):
    a = build_actors(dict(scn, share_config=False))[i]
    a.run_all()
    return ActorResult(a)


def _inter(scn):
    if scn["mode"] == "op":
        actors, stats = run_op_level(scn)
    else:
        actors, stats = run_line_level(scn)
    return [ActorResult(a) for a in actors], stats


def run_pristine(scn):
    """-> (solo results, interleaved results, stats); raises SoloWriterFailed"""
    from .forkrun import in_fork, ForkError, ForkTimeout
    try:
        solo = [in_fork(_solo_one, scn, i) for i in range(len(scn["actors"]))]
        inter, stats = in_fork(_inter, scn)
    except ForkTimeout:
        raise ActorDidNotTerminate()
    except ForkError as e:
        if e.args and e.args[0] == "SoloWriterFailed":
            raise SoloWriterFailed(*e.args[1])
        raise
    return solo, inter, stats
