"""Run a function in a forked child so that it starts from this process's pristine state (modules
imported, no code under test executed yet) and cannot leave anything behind."""
import os
import pickle
import traceback


CHILD_WALL_S = 30


class ForkError(Exception):
    pass


class ForkTimeout(ForkError):
    """the child was killed by its wall-clock backstop (the code under test did not terminate)"""


def in_fork(fn, *args):
    r, w = os.pipe()
    pid = os.fork()
    if pid == 0:
        code = 0
        try:
            os.close(r)
            try:
                res = ("ok", fn(*args))
            except BaseException as e:  # noqa
                res = ("err", type(e).__name__, e.args, traceback.format_exc())
            with os.fdopen(w, "wb") as f:
                pickle.dump(res, f)
        except BaseException:
            code = 3
        os._exit(code)
    os.close(w)
    # wall-clock backstop enforced by the parent (timers inside the child are used by the code paths
    # themselves): a child that has produced nothing after CHILD_WALL_S seconds is killed
    import select
    import signal
    ready, _, _ = select.select([r], [], [], CHILD_WALL_S)
    if not ready:
        try:
            os.kill(pid, signal.SIGKILL)
        except OSError:
            pass
        os.close(r)
        os.waitpid(pid, 0)
        raise ForkTimeout(f"forked child did not finish within {CHILD_WALL_S}s")
    with os.fdopen(r, "rb") as f:
        data = f.read()
    _, status = os.waitpid(pid, 0)
    if not data:
        raise ForkError("forked child produced no result")
    res = pickle.loads(data)
    if res[0] == "ok":
        return res[1]
    raise ForkError(res[1], res[2], res[3])
