"""Run a function in a forked child so that it starts from this process's pristine state (modules
imported, no code under test executed yet) and cannot leave anything behind."""
import os
import pickle
import traceback


CHILD_WALL_S = 30


class ForkError(Exception):
    pass


class ForkTimeout(ForkError):
    """the child was killed by its wall-clock backstop (the code under test did not terminate)"""


def in_fork(fn, *args):
    r, w = os.pipe()
    pid = os.fork()
    if pid == 0:
        code = 0
        try:
            import signal
            signal.alarm(CHILD_WALL_S)      # wall-clock backstop: a hung child must not hang the worker
            os.close(r)
            try:
                res = ("ok", fn(*args))
            except BaseException as e:  # noqa
                res = ("err", type(e).__name__, e.args, traceback.format_exc())
            with os.fdopen(w, "wb") as f:
                pickle.dump(res, f)
        except BaseException:
            code = 3
        os._exit(code)
    os.close(w)
    with os.fdopen(r, "rb") as f:
        data = f.read()
    _, status = os.waitpid(pid, 0)
    if not data:
        if os.WIFSIGNALED(status) and os.WTERMSIG(status) == 14:
            raise ForkTimeout(f"forked child did not finish within {CHILD_WALL_S}s")
        raise ForkError("forked child produced no result")
    res = pickle.loads(data)
    if res[0] == "ok":
        return res[1]
    raise ForkError(res[1], res[2], res[3])
