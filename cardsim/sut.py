"""System under test: imports cardutil from /repo's working tree (or CARDSIM_REPO for the
sensitivity self-test), silences logging, owns the configuration knob seam."""
import contextlib
import logging
import os
import sys

REPO = os.environ.get("CARDSIM_REPO", "/repo")

_loaded = {}


def load():
    """import the code under test, asserting where it came from"""
    if _loaded:
        return _loaded
    if sys.path[0] != REPO:
        sys.path.insert(0, REPO)
    import cardutil
    from cardutil import mciipm, iso8583, config
    from cardutil import cli as cli_pkg
    from cardutil.cli import mci_ipm_to_csv, mideu
    real = os.path.realpath(cardutil.__file__)
    if not real.startswith(os.path.realpath(REPO) + os.sep):
        raise RuntimeError(f"cardutil imported from {real}, expected under {REPO}")
    # the reader logs a WARNING per short prefix; keep stderr quiet and the runs fast
    logging.disable(logging.CRITICAL)
    os.environ.pop("CARDUTIL_CONFIG", None)
    _loaded.update(cardutil=cardutil, mciipm=mciipm, iso8583=iso8583, config=config,
                   cli=cli_pkg, mci_ipm_to_csv=mci_ipm_to_csv, mideu=mideu,
                   MciIpmDataError=mciipm.MciIpmDataError,
                   Iso8583DataError=iso8583.Iso8583DataError,
                   CardutilError=cardutil.CardutilError)
    from . import msgcodec
    msgcodec.packaged_bit_config()
    return _loaded


@contextlib.contextmanager
def knob(max_len=None):
    """MAX_VBS_RECORD_LENGTH tuning knob (the only one the library has); restored afterwards"""
    cfg = load()["config"].config
    old = cfg.get("MAX_VBS_RECORD_LENGTH", 6000)
    if max_len is not None:
        cfg["MAX_VBS_RECORD_LENGTH"] = max_len
    try:
        yield
    finally:
        cfg["MAX_VBS_RECORD_LENGTH"] = old


def repo_rev() -> str:
    import hashlib
    import subprocess
    try:
        rev = subprocess.run(["git", "-C", REPO, "rev-parse", "--short", "HEAD"],
                             capture_output=True, text=True, timeout=20).stdout.strip()
        diff = subprocess.run(["git", "-C", REPO, "diff", "HEAD", "--", "cardutil"],
                              capture_output=True, timeout=20).stdout
        if diff:
            rev += "+dirty:" + hashlib.sha1(diff).hexdigest()[:8]
        return rev or "unknown"
    except Exception:
        return "unknown"
