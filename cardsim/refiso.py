"""Reference models for the ISO8583 layer (oracles of C07/C08/C10; fault-site maps for the planners).

Written from the documentation in cardutil/iso8583.py and cardutil/config.py; shares no code with
the implementation.

ref_read(bytes, cfg, enc, hex_bitmap) -> Reading with cls in {ACCEPT, REJECT, DONTCARE}:
  ACCEPT    the one exact strict reading exists (plain decimal numerals everywhere)
  REJECT    no exact reading can exist
  DONTCARE  the property leaves the input open (numerals Python's int() would read but that are not
            plain decimal digits, malformed PDS / TLV content inside a well-framed carrier, bit 128, ...)
check_tiling(result, bytes, cfg, enc, hex_bitmap) -> None | reason
  verifies, without trusting any numeral parser where it can be avoided, that the elements a decoder
  RETURNED tile the message exactly and that each value is the content of its own bytes.
"""
import datetime
import decimal
import re

ACCEPT, REJECT, DONTCARE = "ACCEPT", "REJECT", "DONTCARE"
_PLAIN = re.compile(r"\A[0-9]+\Z")   # not $: it would also match before a trailing newline
_PLAIN_DEC = re.compile(r"\A[0-9]+(\.[0-9]+)?\Z")
_HEX_LOWER = re.compile(rb"\A[0-9a-f]{32}\Z")
_HEX_ANY = re.compile(rb"\A[0-9a-fA-F]{32}\Z")


def ref_mask(s):
    return s[0:6] + "*" * (len(s) - 10) + s[-4:]


def classify_numeral(text):
    """('plain', n) | ('lenient', n) | ('bad', None)"""
    if _PLAIN.match(text):
        return "plain", int(text)
    try:
        return "lenient", int(text)
    except ValueError:
        return "bad", None


class Reading:
    def __init__(self):
        self.cls = ACCEPT
        self.reason = None
        self.values = {}        # MTI, DEn (processed), PDSxxxx, ICC_DATA
        self.spans = {"elems": []}
        self.dc_reasons = []

    def dontcare(self, why):
        self.dc_reasons.append(why)
        if self.cls == ACCEPT:
            self.cls = DONTCARE
            self.reason = why

    def reject(self, why):
        # a REJECT that comes after a DONTCARE decision stays DONTCARE (conservative)
        if self.cls == ACCEPT:
            self.cls = REJECT
            self.reason = why
        return self


def bitmap_bits(bm: bytes):
    """list of set bit numbers (1..128) of a 16-byte bitmap, bit 1 = most significant bit of byte 0"""
    out = []
    for i, byte in enumerate(bm):
        for j in range(8):
            if byte & (0x80 >> j):
                out.append(i * 8 + j + 1)
    return out


def tlv_spans(data: bytes, base: int):
    """TLV walk of DE55 content as documented (1-byte tags, 2-byte tags starting 9F/5F, 1-byte length,
    a 00 tag ends the data); returns (spans, wellformed)"""
    spans = []
    p = 0
    ok = True
    while p < len(data):
        t0 = p
        if data[p] in (0x9F, 0x5F):
            p += 2
        else:
            p += 1
        if data[t0:p] == b"\x00":
            break
        if p > len(data) or p >= len(data):
            ok = False
            spans.append({"tag": (base + t0, base + min(p, len(data))), "len": None, "val": None})
            break
        ln = data[p]
        v0 = p + 1
        v1 = v0 + ln
        if v1 > len(data):
            ok = False
        spans.append({"tag": (base + t0, base + p), "len": (base + p, base + p + 1),
                      "val": (base + v0, base + min(v1, len(data)))})
        p = v1
    return spans, ok


def pds_walk(text: str, base: int):
    """strict walk of a PDS carrier: tag(4 digits) len(3 digits) value.  Returns (entries, spans, status)
    status: 'ok' | 'dontcare:<why>'"""
    entries = {}
    spans = []
    p = 0
    n = len(text)
    while p < n:
        if n - p < 7:
            return entries, spans, "dontcare:PDS header cut short"
        tag = text[p:p + 4]
        ln_t = text[p + 4:p + 7]
        kind, ln = classify_numeral(ln_t)
        if kind != "plain":
            return entries, spans, f"dontcare:PDS sub-length {ln_t!r} is not plain digits"
        if not _PLAIN.match(tag):
            return entries, spans, f"dontcare:PDS tag {tag!r} is not four digits"
        if p + 7 + ln > n:
            return entries, spans, "dontcare:PDS sub-length runs past its carrier"
        entries["PDS" + tag] = text[p + 7:p + 7 + ln]
        spans.append({"tag": (base + p, base + p + 4), "len": (base + p + 4, base + p + 7),
                      "val": (base + p + 7, base + p + 7 + ln)})
        p += 7 + ln
    return entries, spans, "ok"


def convert_typed(text, c):
    """-> (status, value) with status 'plain' | 'lenient' | 'bad'"""
    t = c.get("field_python_type")
    if t in ("int", "long"):
        kind, v = classify_numeral(text)
        return kind, v
    if t == "decimal":
        try:
            v = decimal.Decimal(text)
        except (decimal.InvalidOperation, ValueError):
            return "bad", None
        return ("plain" if _PLAIN_DEC.match(text) else "lenient"), v
    if t == "datetime":
        fmt = c.get("field_date_format", "%y%m%d")
        try:
            v = datetime.datetime.strptime(text, fmt)
        except ValueError:
            return "bad", None
        # strptime is lenient about widths / spaces: only an exact re-rendering is the strict reading
        try:
            exact = v.strftime(fmt) == text
        except ValueError:
            exact = False
        return ("plain" if exact else "lenient"), v
    return "plain", text


def ref_read(b: bytes, cfg: dict, enc: str, hex_bitmap: bool = False) -> Reading:
    r = Reading()
    hdr = 36 if hex_bitmap else 20
    if len(b) < hdr:
        return r.reject("message shorter than MTI + bitmap")
    r.spans["mti"] = (0, 4)
    r.spans["bitmap"] = (4, hdr)
    r.spans["data0"] = hdr
    # MTI
    try:
        mti = b[0:4].decode(enc)
    except UnicodeDecodeError:
        return r.reject("MTI bytes cannot be decoded")
    kind, _ = classify_numeral(mti)
    if kind == "bad":
        r.dontcare("MTI is decodable text but not a number")
    elif kind == "lenient":
        r.dontcare("MTI numeral is not four plain digits")
    r.values["MTI"] = mti
    # bitmap
    if hex_bitmap:
        raw = b[4:36]
        if not _HEX_ANY.match(raw):
            return r.reject("hex bitmap holds non-hex characters")
        if not _HEX_LOWER.match(raw):
            r.dontcare("upper-case hex bitmap")
        bm = bytes.fromhex(raw.decode("ascii"))
    else:
        bm = b[4:20]
    bits = bitmap_bits(bm)
    if 128 in bits:
        r.dontcare("bit 128 is flagged (outside the decoder's 2..127 range)")
    data = b[hdr:]
    p = 0
    for bit in bits:
        if bit < 2 or bit > 127:
            continue
        c = cfg.get(str(bit))
        if not c:
            return r.reject(f"bit {bit} flagged without configuration")
        ftype = c["field_type"]
        proc = c.get("field_processor")
        el = {"bit": bit, "type": ftype, "proc": proc, "ptype": c.get("field_python_type"), "prefix": None}
        if ftype == "FIXED":
            ln = c["field_length"]
            ls = 0
        else:
            ls = 2 if ftype == "LLVAR" else 3
            if len(data) - p < ls:
                return r.reject(f"DE{bit}: length prefix cut short")
            try:
                pt = data[p:p + ls].decode(enc)
            except UnicodeDecodeError:
                return r.reject(f"DE{bit}: length prefix cannot be decoded")
            kind, ln = classify_numeral(pt)
            if kind == "bad":
                return r.reject(f"DE{bit}: length prefix {pt!r} is not a numeral")
            if kind == "lenient":
                if ln < 0:
                    return r.reject(f"DE{bit}: negative declared length {pt!r}")
                r.dontcare(f"DE{bit}: length prefix {pt!r} is not plain digits")
            el["prefix"] = (hdr + p, hdr + p + ls)
        if len(data) - (p + ls) < ln:
            return r.reject(f"DE{bit}: declared {ln} bytes, only {len(data) - p - ls} present")
        raw = data[p + ls:p + ls + ln]
        el["data"] = (hdr + p + ls, hdr + p + ls + ln)
        r.spans["elems"].append(el)
        key = f"DE{bit}"
        if proc == "ICC":
            r.values[key] = raw
            r.values["ICC_DATA"] = raw.hex()
            el["tlv"], _ok = tlv_spans(raw, hdr + p + ls)
            if not _ok:
                r.dontcare(f"DE{bit}: malformed TLV content inside a well-framed ICC element")
        else:
            try:
                text = raw.decode(enc)
            except UnicodeDecodeError:
                return r.reject(f"DE{bit}: value cannot be decoded")
            val = text
            if proc == "PAN":
                val = ref_mask(text)
                if len(text) < 10:
                    r.dontcare(f"DE{bit}: PAN shorter than 10 characters")
            elif proc == "PAN-PREFIX":
                val = text[:9]
            st, conv = convert_typed(val, c)
            if st == "bad":
                return r.reject(f"DE{bit}: value {val!r:.30} is not convertible to {c.get('field_python_type')}")
            if st == "lenient":
                r.dontcare(f"DE{bit}: typed value {val!r:.30} is not in plain form")
            r.values[key] = conv
            if proc == "PDS":
                entries, sp, status = pds_walk(text, hdr + p + ls)
                el["pds"] = sp
                if status == "ok":
                    r.values.update(entries)
                else:
                    r.dontcare(f"DE{bit}: {status[9:]}")
        p += ls + ln
    if p != len(data):
        return r.reject(f"{len(data) - p} bytes left over after the last element")
    return r


# ---------------------------------------------------------------------------------------------
# tiling checker (soundness side of C08)
# ---------------------------------------------------------------------------------------------

def _value_matches(value, raw, c, enc):
    proc = c.get("field_processor")
    if proc == "ICC":
        return (isinstance(value, (bytes, bytearray)) and bytes(value) == raw), "bytes"
    try:
        text = raw.decode(enc)
    except UnicodeDecodeError:
        return False, "bytes of the element cannot be decoded"
    if proc == "PAN":
        text = ref_mask(text)
    elif proc == "PAN-PREFIX":
        text = text[:9]
    t = c.get("field_python_type")
    try:
        if t in ("int", "long"):
            return (isinstance(value, int) and value == int(text)), f"int({text!r:.20})"
        if t == "decimal":
            want = decimal.Decimal(text)
            if not isinstance(value, decimal.Decimal):
                same = False
            elif value.is_nan() or want.is_nan():
                same = value.compare_total(want) == 0      # (signalling) NaNs never compare equal with ==
            else:
                same = value == want
            return same, f"Decimal({text!r:.20})"
        if t == "datetime":
            want = datetime.datetime.strptime(text, c.get("field_date_format", "%y%m%d"))
            return (value == want), f"strptime({text!r:.20})"
    except (ValueError, decimal.InvalidOperation):
        return False, f"bytes {text!r:.20} are not a {t}"
    return (value == text), repr(text)[:30]


def check_tiling(result: dict, b: bytes, cfg: dict, enc: str, hex_bitmap: bool = False):
    """None if the returned elements tile the message exactly, else a reason"""
    hdr = 36 if hex_bitmap else 20
    if len(b) < hdr:
        return "a message shorter than MTI + bitmap was accepted"
    try:
        if result.get("MTI") != b[0:4].decode(enc):
            return "MTI is not the content of bytes 0..3"
    except UnicodeDecodeError:
        return "MTI bytes cannot be decoded"
    if hex_bitmap:
        try:
            bm = bytes.fromhex(b[4:36].decode("ascii"))
        except (ValueError, UnicodeDecodeError):
            return "hex bitmap is not hexadecimal"
        if len(bm) != 16:
            return "hex bitmap is not 32 hex digits"
    else:
        bm = b[4:20]
    bits = [x for x in bitmap_bits(bm) if 2 <= x <= 127]
    returned = sorted(int(k[2:]) for k in result if k.startswith("DE") and k[2:].isdigit())
    if returned != bits:
        missing = [x for x in bits if x not in returned]
        extra = [x for x in returned if x not in bits]
        return f"returned elements do not match the bitmap: skipped {missing[:4]}, not flagged {extra[:4]}"
    data = b[hdr:]
    p = 0
    for bit in bits:
        c = cfg.get(str(bit))
        if not c:
            return f"element {bit} has no configuration but was returned"
        value = result[f"DE{bit}"]
        proc = c.get("field_processor")
        if c["field_type"] == "FIXED":
            ls, ln = 0, c["field_length"]
        else:
            ls = 2 if c["field_type"] == "LLVAR" else 3
            if len(data) - p < ls:
                return f"DE{bit}: length prefix lies beyond the end of the message"
            try:
                pt = data[p:p + ls].decode(enc)
            except UnicodeDecodeError:
                return f"DE{bit}: length prefix bytes cannot be decoded"
            recoverable = None
            if proc == "ICC":
                if isinstance(value, (bytes, bytearray)):
                    recoverable = len(value)
            elif proc is None or proc in ("PDS", "DE43"):
                if c.get("field_python_type") in (None, "string") and isinstance(value, str):
                    recoverable = len(value)
            elif proc == "PAN" and isinstance(value, str) and len(value) > 10:
                # first-6 / last-4 masking keeps the length only for inputs of 10 or more characters; a masked
                # value of exactly 10 characters may come from an input of 6..10, so its length says nothing
                recoverable = len(value)
            if _PLAIN.match(pt):
                ln = int(pt)
                if recoverable is not None and recoverable != ln:
                    return (f"DE{bit}: prefix declares {ln} bytes but the returned value has {recoverable}")
            elif recoverable is not None:
                ln = recoverable
            else:
                try:
                    ln = int(pt)
                except ValueError:
                    return f"DE{bit}: prefix {pt!r} is not a numeral yet the element was returned"
                if ln < 0:
                    return f"DE{bit}: negative declared length {pt!r} accepted"
        if len(data) - (p + ls) < ln:
            return f"DE{bit}: element runs past the end of the message"
        raw = data[p + ls:p + ls + ln]
        ok, what = _value_matches(value, raw, c, enc)
        if not ok:
            return (f"DE{bit}: returned value {value!r:.40} is not the content of its own bytes "
                    f"(message data offset {p + ls}..{p + ls + ln}: {what})")
        p += ls + ln
    if p != len(data):
        return f"returned elements cover {p} of {len(data)} data bytes"
    return None


def compare_reading(reading: Reading, result: dict):
    """completeness side: impl result must agree with the strict reading on MTI, DEn, PDSxxxx, ICC_DATA"""
    diffs = []
    for k, v in reading.values.items():
        if k not in result:
            diffs.append(f"{k} missing")
        elif result[k] != v or (isinstance(v, (int, str, bytes)) and type(result[k]) is not type(v)):
            diffs.append(f"{k}: {result[k]!r:.40} != {v!r:.40}")
    for k in result:
        if k in reading.values:
            continue
        if (k.startswith("DE") and k[2:].isdigit()) or k.startswith("PDS"):
            diffs.append(f"extra {k}")
    return diffs
