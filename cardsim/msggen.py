"""Well-formed ISO8583 / IPM message workload (not an oracle).

Built to the definition of "well-formed" in the property texts: 4-digit MTI; fixed text of exactly
the field width; variable text 1..99 / 1..999; integers 0..10^w-1; datetimes inside the format's
window with the format's precision; PDS sets within carrier capacity; DE55 as bytes made of
well-formed TLVs; PAN-processor fields >= 10 characters; characters that round-trip through the
chosen single-byte codec.  Generated configurations stay inside the combinations the
documentation of cardutil/config.py describes.
"""
import datetime
import decimal

from . import msgcodec

CODECS = ["latin_1", "ascii", "cp500", "cp037", "cp1140", "cp273", "cp1026", "cp875", "cp424"]
CODEC_WEIGHTS = [6, 2, 6, 6, 1, 1, 1, 1, 1]

_CHARS = {}

DE43_REGEX = (r"(?P<DE43_NAME>.+?) *\\(?P<DE43_ADDRESS>.+?) *\\(?P<DE43_SUBURB>.+?) *\\"
              r"(?P<DE43_POSTCODE>.{10})(?P<DE43_STATE>.{3})(?P<DE43_COUNTRY>\S{3})$")


DE43_REGEX_B = r"(?P<DE43_NAME>[^\\]{1,22}).*?(?P<DE43_COUNTRY>\S{3})$"


def codec_chars(enc: str) -> str:
    """characters (one per byte value) that survive encode/decode in a single-byte codec"""
    if enc not in _CHARS:
        out = []
        for b in range(256):
            try:
                c = bytes([b]).decode(enc)
            except UnicodeDecodeError:
                continue
            if len(c) != 1:
                continue
            try:
                if c.encode(enc) != bytes([b]):
                    continue
            except UnicodeEncodeError:
                continue
            out.append(c)
        _CHARS[enc] = "".join(out)
    return _CHARS[enc]


_PLAIN = "ABCDEFGHIJKLMNOPQRSTUVWXYZabcdefghijklmnopqrstuvwxyz0123456789 "
_DIGITS = "0123456789"


def gen_text(rng, n, enc):
    r = rng.random()
    if r < 0.45:
        alphabet = _PLAIN
    elif r < 0.65:
        alphabet = _DIGITS
    elif r < 0.75:
        alphabet = "0123456789-+ _"
    else:
        alphabet = codec_chars(enc)
    return "".join(rng.choice(alphabet) for _ in range(n))


def gen_varlen(rng, cap):
    r = rng.random()
    if r < 0.15:
        return rng.choice([1, 2, cap, cap - 1])
    if r < 0.25 and cap > 99:
        return rng.choice([99, 100, 101, 255, 256])
    if r < 0.75:
        return rng.randint(1, min(cap, 40))
    return rng.randint(1, cap)


DATE_FORMATS = ["%y%m%d", "%y%m%d%H%M%S", "%Y%m%d%H%M", "%Y-%m-%d", "%y%m%d%H%M"]


def gen_datetime(rng, fmt):
    if "%y" in fmt:
        year = rng.choice([1969, 1970, 1999, 2000, 2001, 2068, rng.randint(1969, 2068)])
    else:
        year = rng.choice([1000, 1969, 2000, 2069, 9999, rng.randint(1000, 9999)])
    month = rng.randint(1, 12)
    day = rng.randint(1, 28) if rng.random() < 0.8 else _last_day(year, month)
    dt = datetime.datetime(year, month, day, rng.randint(0, 23), rng.randint(0, 59), rng.randint(0, 59))
    # cut to the precision of the format
    return datetime.datetime.strptime(dt.strftime(fmt), fmt)


def _last_day(y, m):
    if m == 12:
        return 31
    return (datetime.date(y, m + 1, 1) - datetime.timedelta(days=1)).day


def gen_int(rng, width):
    r = rng.random()
    top = 10 ** width - 1
    if r < 0.15:
        return 0
    if r < 0.30:
        return top
    if r < 0.40:
        return min(top, rng.choice([1, 9, 10, max(0, top - 1)]))
    if r < 0.50 and width >= 2:
        # negative numbers: the sign takes one of the `width` characters
        low = -(10 ** (width - 1) - 1)
        return rng.choice([-1, low, rng.randint(low, -1)])
    return rng.randint(0, top)


def gen_decimal(rng, width):
    if width >= 32 and rng.random() < 0.7:
        # many significant digits (beyond the default 28-digit decimal context)
        nd = rng.randint(29, width - 2)
        digits = str(rng.randint(1, 9)) + "".join(rng.choice("0123456789") for _ in range(nd - 2)) + str(rng.randint(1, 9))
        if rng.random() < 0.5:
            k = rng.randint(1, nd - 1)
            return decimal.Decimal(digits[:k] + "." + digits[k:])
        return decimal.Decimal(digits)
    frac = rng.randint(0, min(3, width - 2))
    ip = rng.randint(0, 10 ** max(1, width - frac - 2) - 1)
    if frac:
        return decimal.Decimal(f"{ip}.{rng.randint(0, 10 ** frac - 1):0{frac}d}")
    return decimal.Decimal(ip)


def gen_tlvs(rng, cap):
    """DE55 content: well-formed TLVs (1- and 2-byte tags, never tag 00), total <= cap bytes"""
    out = bytearray()
    for _ in range(rng.randint(1, 12)):
        if rng.random() < 0.5:
            tag = bytes([rng.choice([0x9F, 0x5F]), rng.randint(0, 255)])
        else:
            t = rng.randint(1, 255)
            while t in (0x9F, 0x5F):
                t = rng.randint(1, 255)
            tag = bytes([t])
        ln = rng.choice([0, 1, 2, 3, 8, rng.randint(0, 40), rng.randint(0, 255)])
        if len(out) + len(tag) + 1 + ln > cap:
            break
        out += tag + bytes([ln]) + rng.randbytes(ln)
    if not out:
        out += b"\x82\x02\x00\x00"
    return bytes(out)


def pack_pds(pds: dict):
    """greedy packing of PDSxxxx entries (ascending key order) into <=999-character carriers,
    as documented; used only to size the workload"""
    carriers, cur = [], ""
    for key in sorted(pds):
        add = f"{int(key[3:]):04}{len(pds[key]):03}{pds[key]}"
        if len(cur + add) > 999:
            carriers.append(cur)
            cur = ""
        cur += add
    if cur:
        carriers.append(cur)
    return carriers


def gen_pds(rng, enc, n_carriers_avail, budget_chars):
    """PDS set that fits the available carriers and a character budget"""
    pds = {}
    if n_carriers_avail <= 0 or budget_chars < 8:
        return pds
    shape = rng.random()
    if shape < 0.6:
        n = rng.randint(1, 6)
    elif shape < 0.9:
        n = rng.randint(5, 30)
    else:
        n = rng.randint(20, 120)
    used = 0
    for _ in range(n):
        tag = rng.choice([1, 2, 23, 52, 122, 148, 158, 165, 9999, rng.randint(1, 9999)])
        key = f"PDS{tag:04}"
        if key in pds:
            continue
        r = rng.random()
        if r < 0.08:
            ln = 0
        elif r < 0.7:
            ln = rng.randint(1, 30)
        elif r < 0.9:
            ln = rng.randint(1, 200)
        else:
            ln = rng.choice([985, 990, 991, 992, rng.randint(200, 992)])
        if used + 7 + ln > budget_chars:
            continue
        # digit-only values look like tag/length headers
        val = gen_text(rng, ln, enc)
        trial = dict(pds)
        trial[key] = val
        if len(pack_pds(trial)) > n_carriers_avail:
            continue
        pds = trial
        used += 7 + ln
    return pds


# ---------------------------------------------------------------------------------------------
# configurations
# ---------------------------------------------------------------------------------------------

def gen_config(rng):
    """generated bit configuration (JSON-able dict) inside the documented combinations"""
    nbits = rng.randint(3, 40)
    bits = sorted(rng.sample(range(2, 128), nbits))
    if rng.random() < 0.7 and not any(b > 64 for b in bits):
        bits.append(rng.randint(65, 127))
        bits.sort()
    cfg = {}
    n_pds = 0
    have_icc = False
    for b in bits:
        r = rng.random()
        if r < 0.5:
            t = rng.random()
            if t < 0.5:
                c = {"field_name": f"f{b}", "field_type": "FIXED", "field_length": rng.randint(1, 40)}
            elif t < 0.7:
                c = {"field_name": f"f{b}", "field_type": "FIXED", "field_length": rng.randint(1, 15),
                     "field_python_type": rng.choice(["int", "long"])}
            elif t < 0.9:
                fmt = rng.choice(DATE_FORMATS)
                width = len(datetime.datetime(2000, 1, 1).strftime(fmt))
                c = {"field_name": f"f{b}", "field_type": "FIXED", "field_length": width,
                     "field_python_type": "datetime", "field_date_format": fmt}
            else:
                c = {"field_name": f"f{b}", "field_type": "FIXED",
                     "field_length": rng.choice([rng.randint(6, 14), rng.randint(6, 14), 32, 35, 40]),
                     "field_python_type": "decimal"}
        elif r < 0.72:
            c = {"field_name": f"f{b}", "field_type": "LLVAR", "field_length": 0}
            p = rng.random()
            if p < 0.15:
                c["field_processor"] = "PAN"
            elif p < 0.25:
                c["field_processor"] = "PAN-PREFIX"
            elif p < 0.32:
                c["field_processor"] = "DE43"
                c["field_processor_config"] = DE43_REGEX if rng.random() < 0.7 else DE43_REGEX_B
        else:
            c = {"field_name": f"f{b}", "field_type": "LLLVAR", "field_length": 0}
            p = rng.random()
            if p < 0.2 and n_pds < 3:
                c["field_processor"] = "PDS"
                n_pds += 1
            elif p < 0.3 and not have_icc:
                c["field_processor"] = "ICC"
                have_icc = True
            elif p < 0.36:
                c["field_processor"] = "PAN"
        cfg[str(b)] = c
    return cfg


# ---------------------------------------------------------------------------------------------
# messages
# ---------------------------------------------------------------------------------------------

def gen_field_value(rng, c, enc):
    ft = c["field_type"]
    proc = c.get("field_processor")
    if ft == "FIXED":
        t = c.get("field_python_type")
        w = c["field_length"]
        if t in ("int", "long"):
            return gen_int(rng, w)
        if t == "datetime":
            return gen_datetime(rng, c.get("field_date_format", "%y%m%d"))
        if t == "decimal":
            return gen_decimal(rng, w)
        v = gen_text(rng, w, enc)
        r = rng.random()
        if r < 0.15 and w >= 2:
            v = v[:-1] + " "            # fixed text ending in a blank must come back unstripped
        elif r < 0.22 and w >= 2:
            v = " " + v[1:]
        return v
    cap = 99 if ft == "LLVAR" else 999
    if proc == "ICC":
        return gen_tlvs(rng, rng.choice([40, 120, 255, 999]))
    if proc in ("PAN", "PAN-PREFIX"):
        n = rng.randint(10, min(cap, 19)) if rng.random() < 0.8 else rng.randint(10, min(cap, 40))
        return "".join(rng.choice(_DIGITS) for _ in range(n))
    if proc == "DE43":
        if rng.random() < 0.6:
            name = gen_text(rng, rng.randint(1, 22), "ascii").replace("\\", "/").strip() or "N"
            addr = gen_text(rng, rng.randint(1, 20), "ascii").replace("\\", "/").strip() or "A"
            sub = gen_text(rng, rng.randint(1, 13), "ascii").replace("\\", "/").strip() or "S"
            v = f"{name}\\{addr}\\{sub}\\{gen_text(rng, 10, 'ascii')}{gen_text(rng, 3, 'ascii')}AUS"
            return v[:99]
    return gen_text(rng, gen_varlen(rng, cap), enc)


def msg_size(msg, cfg):
    n = 20
    for k, v in msg.items():
        if not k.startswith("DE"):
            continue
        c = cfg[k[2:]]
        if c["field_type"] == "FIXED":
            n += c["field_length"]
        else:
            n += (2 if c["field_type"] == "LLVAR" else 3) + len(v)
    pds = {k: v for k, v in msg.items() if k.startswith("PDS")}
    for car in pack_pds(pds):
        n += 3 + len(car)
    return n


def gen_message(rng, cfg, enc, max_record):
    """one well-formed message (python values) for bit configuration cfg"""
    bits = sorted(int(b) for b in cfg if 2 <= int(b) <= 127)
    pds_bits = [b for b in bits if cfg[str(b)].get("field_processor") == "PDS"]
    plain_bits = [b for b in bits if b not in pds_bits]
    shape = rng.random()
    if shape < 0.35:
        k = rng.randint(0, min(4, len(plain_bits)))
    elif shape < 0.85:
        k = rng.randint(0, min(14, len(plain_bits)))
    else:
        k = rng.randint(0, len(plain_bits))
    chosen = sorted(rng.sample(plain_bits, k)) if k else []
    msg = {"MTI": "".join(rng.choice(_DIGITS) for _ in range(4))}
    for b in chosen:
        v = gen_field_value(rng, cfg[str(b)], enc)
        if v == "" or v == b"":
            continue
        msg[f"DE{b}"] = v
    if pds_bits and rng.random() < 0.6:
        budget = max(0, max_record - msg_size(msg, cfg) - 3 * len(pds_bits))
        msg.update(gen_pds(rng, enc, len(pds_bits), budget))
    # keep the encoded record within the configured maximum
    while msg_size(msg, cfg) > max_record and len(msg) > 1:
        drop = max((k for k in msg if k != "MTI"), key=lambda k: len(msg[k]) if hasattr(msg[k], "__len__") else 12)
        del msg[drop]
    return msg


ALIASES = {"latin_1": ["latin1", "iso-8859-1", "L1", "ISO8859-1"], "cp500": ["CP500", "ibm500", "EBCDIC-CP-BE"],
           "cp037": ["IBM037", "ibm039", "CP037"], "ascii": ["us-ascii", "ASCII", "646"]}


def gen_file_messages(st, nmax=12, max_record=6000):
    """(encoding, config-json, [message-json]) for one IPM file; st is a kernel.Streams"""
    kn = st["knobs"]
    wl = st["workload"]
    enc = kn.choices(CODECS, CODEC_WEIGHTS)[0]
    if enc in ALIASES and kn.random() < 0.25:
        enc = kn.choice(ALIASES[enc])      # the same codec under another registered name
    if kn.random() < 0.6:
        cfgj = "packaged"
    else:
        cfgj = gen_config(st["config"])
    cfg = msgcodec.effective_cfg(cfgj)
    n = wl.randint(1, nmax)
    msgs = []
    for _ in range(n):
        m = gen_message(wl, cfg, enc, max_record)
        if msg_size(m, cfg) > max_record:
            continue
        msgs.append(msgcodec.msg_to_json(m))
    if not msgs:
        msgs.append({"MTI": "1240"})
    return enc, cfgj, msgs
