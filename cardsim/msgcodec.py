"""JSON <-> message dict / configuration codec for scenarios and replay files."""
import copy
import datetime
import decimal

_PKG = None


def val_to_json(v):
    if isinstance(v, datetime.datetime):
        return {"$dt": v.isoformat()}
    if isinstance(v, (bytes, bytearray)):
        return {"$hex": bytes(v).hex()}
    if isinstance(v, decimal.Decimal):
        return {"$dec": str(v)}
    return v


def val_from_json(v):
    if isinstance(v, dict):
        if "$dt" in v:
            return datetime.datetime.fromisoformat(v["$dt"])
        if "$hex" in v:
            return bytes.fromhex(v["$hex"])
        if "$dec" in v:
            return decimal.Decimal(v["$dec"])
    return v


def msg_to_json(msg: dict) -> dict:
    return {k: val_to_json(v) for k, v in msg.items()}


def msg_from_json(j: dict) -> dict:
    return {k: val_from_json(v) for k, v in j.items()}


def cfg_from_json(c):
    """'packaged' -> None (library default); dict -> bit_config dict"""
    if c is None or c == "packaged":
        return None
    # always a private copy: the code under test must never be able to write into scenario data
    return copy.deepcopy(c)


def packaged_bit_config():
    """snapshot of the packaged configuration taken when the code under test is first loaded; the
    oracles use this copy so that a SUT which writes into its global configuration cannot move them"""
    global _PKG
    if _PKG is None:
        from . import sut
        _PKG = copy.deepcopy(sut.load()["config"].config["bit_config"])
    return _PKG


def effective_cfg(c):
    return packaged_bit_config() if c is None or c == "packaged" else c
