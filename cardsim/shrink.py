"""Minimiser primitives: ddmin over lists and integer shrinking, time-capped.

A candidate is accepted only if `test(candidate)` is true, where the caller's test means
"the same oracle of the same property still fails"."""
import time


class Deadline:
    def __init__(self, seconds):
        self.t = time.time() + seconds

    def over(self):
        return time.time() > self.t


def ddmin(items, test, deadline=None, min_len=0):
    """smallest sublist (order kept) for which test(sublist) holds; assumes test(items)"""
    items = list(items)
    # long lists: shortest failing prefix first (bisection), far cheaper than chunk removal
    if len(items) > 64:
        lo, hi = max(min_len, 0), len(items)
        while lo < hi and not (deadline and deadline.over()):
            mid = (lo + hi) // 2
            if test(items[:mid]):
                hi = mid
            else:
                lo = mid + 1
        if hi < len(items) and test(items[:hi]):
            items = items[:hi]
    n = 2
    while len(items) > min_len and len(items) >= 1:
        if deadline and deadline.over():
            break
        chunk = max(1, len(items) // n)
        reduced = False
        for i in range(0, len(items), chunk):
            cand = items[:i] + items[i + chunk:]
            if len(cand) < min_len:
                continue
            if test(cand):
                items = cand
                n = max(n - 1, 2)
                reduced = True
                break
            if deadline and deadline.over():
                break
        if not reduced:
            if chunk == 1:
                break
            n = min(len(items), n * 2)
    return items


def shrink_int(value, lo, test, deadline=None):
    """smallest v in [lo, value] with test(v), by bisection-like descent (test(value) assumed)"""
    best = value
    if deadline and deadline.over():
        return best
    # try the floor first, then halve the distance
    cands = [lo, lo + 1, lo + 2]
    for c in cands:
        if deadline and deadline.over():
            return best
        if c < best and test(c):
            return c if c == lo else shrink_int(c, lo, test, deadline)
    step = (best - lo) // 2
    while step >= 1:
        if deadline and deadline.over():
            break
        c = best - step
        if c >= lo and test(c):
            best = c
        else:
            step //= 2
    return best
