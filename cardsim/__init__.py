"""cardsim - deterministic simulation with fault injection for adelosa/cardutil (see /verif/DESIGN.md)."""
