"""Check driver: plans tasks from VERIF_SEED, runs them on a fork pool, merges partial results,
handles violations (confirm -> minimise -> replay file -> fresh-interpreter replay), consults the
committed known-findings list, writes the evidence file.

Exit codes: 0 held / 1 violation / 2 harness error (never reported as a pass).
"""
import collections
import concurrent.futures
import faulthandler
import fnmatch
import hashlib
import importlib
import json
import multiprocessing
import os
import subprocess
import sys
import time
import traceback

from . import sut
from .kernel import canon

VERIF = os.path.dirname(os.path.dirname(os.path.abspath(__file__)))
# evidence/ and replays/ live in /verif; the sensitivity self-test redirects them to a scratch dir
OUT = os.environ.get("CARDSIM_OUT", VERIF)
PROPS = ["C03", "C04", "C05", "C06", "C07", "C08", "C09", "C10", "C11"]
TASK_TIMEOUT_S = int(os.environ.get("CARDSIM_TASK_TIMEOUT", "900"))


def prop_module(pid):
    return importlib.import_module(f"cardsim.props.{pid.lower()}")


def new_partial():
    return {"evals": 0, "nontrivial": 0, "sigs": set(), "counters": collections.Counter(),
            "fails": [], "samples": [], "events": 0, "steps": 0, "digests": [], "runs": 0, "wsigs": {},
            "sigsets": {}}


def merge(into, part):
    into["evals"] += part["evals"]
    into["nontrivial"] += part["nontrivial"]
    into["sigs"] |= part["sigs"]
    into["wsigs"].update(part.get("wsigs", {}))
    for k, v in part.get("sigsets", {}).items():
        into["sigsets"].setdefault(k, set()).update(v)
    into["counters"].update(part["counters"])
    into["fails"].extend(part["fails"][:20])
    if len(into["samples"]) < 5:
        into["samples"].extend(part["samples"][:5 - len(into["samples"])])
    into["events"] += part["events"]
    into["steps"] += part["steps"]
    into["digests"].extend(part["digests"])
    into["runs"] += part["runs"]


def _worker(pid, task):
    faulthandler.enable()
    faulthandler.dump_traceback_later(TASK_TIMEOUT_S, exit=True)
    try:
        mod = prop_module(pid)
        from . import pipeline, steps
        pipeline.HANGS["active"] = True
        steps.HANGS["active"] = True
        part = mod.run_task(task)
        return ("ok", part)
    except BaseException:
        return ("err", traceback.format_exc())
    finally:
        faulthandler.cancel_dump_traceback_later()


def n_workers():
    w = os.environ.get("VERIF_WORKERS")
    if w:
        return max(1, int(w))
    return max(1, min(16, os.cpu_count() or 1))


def run_tasks(pid, tasks, workers):
    """runs tasks, returns list of partials in task order (deterministic merge order)"""
    if workers == 1 or len(tasks) <= 1:
        out = []
        for t in tasks:
            st, part = _worker(pid, t)
            if st != "ok":
                raise HarnessError("task failed:\n" + part)
            out.append(part)
        return out
    ctx = multiprocessing.get_context("fork")
    out = [None] * len(tasks)
    with concurrent.futures.ProcessPoolExecutor(max_workers=workers, mp_context=ctx) as ex:
        futs = {ex.submit(_worker, pid, t): i for i, t in enumerate(tasks)}
        try:
            for fut in concurrent.futures.as_completed(futs, timeout=TASK_TIMEOUT_S + 60):
                st, part = fut.result()
                if st != "ok":
                    raise HarnessError("task failed:\n" + part)
                out[futs[fut]] = part
        except concurrent.futures.process.BrokenProcessPool as e:
            raise HarnessError(f"worker died: {e}")
        except concurrent.futures.TimeoutError:
            raise HarnessError("wall-clock backstop fired waiting for workers")
    return out


class HarnessError(Exception):
    pass


# ---------------------------------------------------------------------------------------------
# known findings
# ---------------------------------------------------------------------------------------------

def load_known():
    path = os.path.join(VERIF, "known_findings.json")
    if not os.path.exists(path):
        return []
    with open(path) as f:
        return json.load(f)["findings"]


def match_known(known, pid, sig):
    for k in known:
        if k["property"] == pid and k.get("status") == "open" and fnmatch.fnmatchcase(sig, k["signature"]):
            return k
    return None


# ---------------------------------------------------------------------------------------------
# replay files
# ---------------------------------------------------------------------------------------------

def write_replay(pid, seed, fail, scn, minimised_from=None):
    os.makedirs(os.path.join(OUT, "replays"), exist_ok=True)
    body = {"property": pid, "oracle": fail["oracle"], "signature": fail["sig"], "seed": seed,
            "scenario": scn, "detail": fail.get("detail"), "repo_rev": sut.repo_rev(),
            "scenario_digest": hashlib.sha256((canon(scn) + fail["oracle"]).encode()).hexdigest()[:16]}
    if minimised_from is not None:
        body["minimised_from_digest"] = hashlib.sha256(canon(minimised_from).encode()).hexdigest()[:16]
    name = f"{pid}-{body['scenario_digest']}.json"
    path = os.path.join(OUT, "replays", name)
    with open(path, "w") as f:
        json.dump(body, f, indent=1, default=_jd)
        f.write("\n")
    return path


def _jd(o):
    if isinstance(o, (bytes, bytearray)):
        return {"hex": bytes(o).hex()}
    if isinstance(o, (set, frozenset)):
        return sorted(o)
    return str(o)


def replay(path):
    with open(path) as f:
        body = json.load(f)
    pid = body["property"]
    mod = prop_module(pid)
    sut.load()
    if body["scenario"].get("kind") == "task_history":
        part = mod.run_task(body["scenario"]["task"])
        fails = part["fails"]
    else:
        fails = mod.judge_scenario(body["scenario"])
    hit = [x for x in fails if x["oracle"] == body["oracle"]]
    print(f"replay {path}: property={pid} oracle={body['oracle']} repo={sut.repo_rev()}")
    if hit:
        print(f"VIOLATION property={pid} replay={path}")
        print(f"  oracle {hit[0]['oracle']}: {hit[0].get('detail')}")
        return 1
    other = [x["oracle"] for x in fails]
    print(f"not reproduced (oracle {body['oracle']} holds on this tree; other failing oracles: {other})")
    return 0


# ---------------------------------------------------------------------------------------------
# main check
# ---------------------------------------------------------------------------------------------

def run_check(pid, tier, seed):
    t0 = time.time()
    mod = prop_module(pid)
    sut.load()
    workers = n_workers()
    budget = float(os.environ.get("VERIF_BUDGET_S", mod.BUDGET_S.get(tier, 0)))
    print(f"cardsim check property={pid} tier={tier} VERIF_SEED={seed} workers={workers} "
          f"repo={sut.REPO} rev={sut.repo_rev()}")
    total = new_partial()
    wave = 0
    try:
        while True:
            tasks = mod.plan(tier, seed, wave)
            if not tasks:
                break
            for task, part in zip(tasks, run_tasks(pid, tasks, workers)):
                for fl in part["fails"]:
                    fl["task"] = task   # the task that produced it: the replay of last resort (history)
                merge(total, part)
            wave += 1
            if tier != "thorough" or time.time() - t0 >= budget or len(total["fails"]) > 0:
                break
        # determinism slice: re-run a few scenarios in a fresh interpreter under another hash seed
        # (skipped when violations were found: the run fails anyway, and a code under test that hangs or
        # misbehaves would make the slice slow or meaningless)
        det = determinism_slice(pid, tier, seed) if not total["fails"] else {"skipped": "violations found"}
    except HarnessError as e:
        print(f"HARNESS-ERROR property={pid}: {e}")
        return 2

    known = load_known()
    violations = []
    known_hits = collections.OrderedDict()
    harness_problems = []
    by_sig = collections.OrderedDict()
    t_handle = time.time()
    for fl in total["fails"]:
        by_sig.setdefault(fl["sig"], fl)
    for sig, fl in by_sig.items():
        k = match_known(known, pid, sig)
        if k is not None:
            known_hits[k["signature"]] = k
            continue
        if len(violations) >= 5:
            continue
        try:
            # minimisation is time-boxed over the whole run: later violations are reported un-minimised
            v = handle_violation(mod, pid, seed, fl, minimise=(time.time() - t_handle < 240))
        except HarnessError as e:
            harness_problems.append(str(e))
            continue
        if v["path"] in [x["path"] for x in violations]:
            continue  # different signatures minimised to the same scenario
        violations.append(v)

    extra, problems = ({}, [])
    if hasattr(mod, "finalize"):
        extra, problems = mod.finalize(total, tier)
    harness_problems.extend(problems)
    if det.get("mismatch"):
        harness_problems.append(f"determinism slice mismatch: {det}")

    wall = time.time() - t0
    distinct = total["nontrivial"] + len(total["sigs"]) + sum(total["wsigs"].values())
    evidence = {
        "property_id": pid, "tier": tier, "seed": seed, "level": mod.LEVEL,
        "coverage": {
            "evaluations": total["evals"],
            "distinct_nontrivial": distinct,
            "rule": mod.RULE,
            "samples": total["samples"][:5],
            "exhaustive": False,
            "runs": total["runs"],
            "waves": wave,
            "runs_per_hour": int(total["runs"] / wall * 3600) if wall > 0 else 0,
            "evaluations_per_hour": int(total["evals"] / wall * 3600) if wall > 0 else 0,
            "sim_events": total["events"],
            "sim_line_steps": total["steps"],
            "simulated_time_note": "cardutil reads no clock; simulated time is the global event sequence "
                                   "number (sim_events) and, where a step budget runs, traced source lines (sim_line_steps)",
            "fault_counts": {k[6:]: v for k, v in sorted(total["counters"].items()) if k.startswith("fault:")},
            "probes": {k[6:]: v for k, v in sorted(total["counters"].items()) if k.startswith("probe:")},
            "knobs_seen": {k[5:]: v for k, v in sorted(total["counters"].items()) if k.startswith("knob:")},
            "storage_kinds": {k[8:]: v for k, v in sorted(total["counters"].items()) if k.startswith("storage:")},
            "outcomes": {k[8:]: v for k, v in sorted(total["counters"].items()) if k.startswith("outcome:")},
            "distinct_by_measure": {k: len(v) for k, v in sorted(total["sigsets"].items())},
            "components": mod.COMPONENTS,
            "determinism_slice": det,
            "run_digest": hashlib.sha256("".join(total["digests"]).encode()).hexdigest()[:16],
            "known_findings_matched": [k["signature"] for k in known_hits.values()],
            "violation_replays": [v["path"] for v in violations],
            "workers": workers,
            "repo_rev": sut.repo_rev(),
        },
        "assumptions": mod.ASSUMPTIONS,
        "wall_s": round(wall, 2),
        "violations": len(violations),
    }
    evidence["coverage"].update(extra)
    os.makedirs(os.path.join(OUT, "evidence"), exist_ok=True)
    with open(os.path.join(OUT, "evidence", f"{pid}.json"), "w") as f:
        json.dump(evidence, f, indent=1, default=_jd)
        f.write("\n")

    for k in known_hits.values():
        print(f"KNOWN-FINDING: property={pid} {k['what']}")
    print(f"{pid}: evaluations={total['evals']} distinct_nontrivial={distinct} runs={total['runs']} "
          f"events={total['events']} steps={total['steps']} violations={len(violations)} wall={wall:.1f}s")
    for p in harness_problems:
        print(f"HARNESS-ERROR property={pid}: {p}")
    if violations:
        return 1  # every reported violation was reproduced from its replay file in a fresh interpreter
    if harness_problems:
        return 2
    print(f"OK property={pid}")
    return 0


_reported = set()


def handle_violation(mod, pid, seed, fl, minimise=True):
    scn = fl["scenario"]
    # (1) confirm in this process
    again = [x for x in mod.judge_scenario(scn) if x["oracle"] == fl["oracle"]]
    if not again:
        # the scenario alone does not fail: the verdict may depend on what the same process executed
        # before it (state left behind by earlier instances).  Fall back to the whole task as the
        # replay: tasks are deterministic functions of their parameters.
        return handle_history_violation(mod, pid, seed, fl)
    # (2) minimise
    small = scn
    if minimise and hasattr(mod, "minimise"):
        try:
            small = mod.minimise(scn, fl["oracle"])
        except Exception:
            print("minimiser failed, keeping the original scenario:\n" + traceback.format_exc())
            small = scn
    fin = [x for x in mod.judge_scenario(small) if x["oracle"] == fl["oracle"]]
    if not fin:
        small, fin = scn, again
    # (3) replay file; (4) the file must fail the same way in a fresh interpreter; (5) report
    path = write_replay(pid, seed, fin[0], small, minimised_from=scn)
    if path in _reported:
        return {"path": path, "oracle": fin[0]["oracle"], "sig": fin[0]["sig"]}
    env = dict(os.environ)
    env["PYTHONHASHSEED"] = "1"
    r = subprocess.run([sys.executable, os.path.join(VERIF, "cardsim_main.py"), "replay", path],
                       capture_output=True, text=True, env=env, timeout=600)
    if r.returncode != 1 or "VIOLATION" not in r.stdout:
        # fails here but not in a pristine process: the verdict depends on state left behind by
        # scenarios this process executed earlier -> replay the producing task as a whole
        try:
            os.remove(path)
        except OSError:
            pass
        return handle_history_violation(mod, pid, seed, fl)
    _reported.add(path)
    print(f"VIOLATION property={pid} replay={path}")
    print(f"  oracle {fin[0]['oracle']}: {fin[0].get('detail')}")
    print(f"  signature {fin[0]['sig']}")
    return {"path": path, "oracle": fin[0]["oracle"], "sig": fin[0]["sig"]}


def run_task_fresh(pid, task):
    """runs one task in a fresh interpreter; returns the list of (oracle, sig, detail) it fails with"""
    env = dict(os.environ)
    env["PYTHONHASHSEED"] = "1"
    r = subprocess.run([sys.executable, os.path.join(VERIF, "cardsim_main.py"), "runtask", pid, json.dumps(task)],
                       capture_output=True, text=True, env=env, timeout=TASK_TIMEOUT_S)
    out = []
    for line in r.stdout.splitlines():
        if line.startswith("TASKFAIL "):
            out.append(json.loads(line[9:]))
    return out, r


def handle_history_violation(mod, pid, seed, fl):
    task = fl.get("task")
    if task is None:
        raise HarnessError(f"verdict {fl['oracle']} not reproducible in-process and no task recorded")
    fails, r = run_task_fresh(pid, task)
    hit = [x for x in fails if x["oracle"] == fl["oracle"]]
    if not hit:
        raise HarnessError(f"verdict {fl['oracle']} reproducible neither as a single scenario nor as its whole task "
                           f"in a fresh interpreter: {canon(task)[:200]}")
    scn = {"kind": "task_history", "task": task,
           "note": "the failing scenario passes when executed alone; the verdict depends on the scenarios the same "
                   "process executed before it (state left behind by earlier instances), so the whole task is the replay",
           "last_scenario": fl["scenario"]}
    path = write_replay(pid, seed, dict(hit[0], sig=hit[0]["sig"]), scn)
    if path in _reported:
        return {"path": path, "oracle": hit[0]["oracle"], "sig": hit[0]["sig"]}
    _reported.add(path)
    print(f"VIOLATION property={pid} replay={path}")
    print(f"  oracle {hit[0]['oracle']}: {hit[0].get('detail')}")
    print(f"  signature {hit[0]['sig']}")
    print("  (history-dependent: the scenario passes alone; replay re-executes the whole task in a fresh process)")
    env = dict(os.environ)
    env["PYTHONHASHSEED"] = "1"
    rr = subprocess.run([sys.executable, os.path.join(VERIF, "cardsim_main.py"), "replay", path],
                        capture_output=True, text=True, env=env, timeout=TASK_TIMEOUT_S)
    if rr.returncode != 1 or "VIOLATION" not in rr.stdout:
        raise HarnessError(f"history replay of {path} did not reproduce (exit {rr.returncode})")
    return {"path": path, "oracle": hit[0]["oracle"], "sig": hit[0]["sig"]}


def determinism_slice(pid, tier, seed):
    """re-executes the first seeded scenarios twice here and once in a fresh interpreter under a
    different PYTHONHASHSEED; the event-log digests must agree"""
    mod = prop_module(pid)
    if not hasattr(mod, "digest_slice"):
        return {"skipped": True}
    a = mod.digest_slice(seed)
    b = mod.digest_slice(seed)
    env = dict(os.environ)
    env["PYTHONHASHSEED"] = "12345"
    r = subprocess.run([sys.executable, os.path.join(VERIF, "cardsim_main.py"), "digest", pid, str(seed)],
                       capture_output=True, text=True, env=env, timeout=600)
    c = r.stdout.strip().splitlines()[-1] if r.stdout.strip() else f"<no output, exit {r.returncode}: {r.stderr[-200:]}>"
    # "stable|full": the full part is compared between cold processes only (first in-process run vs
    # fresh interpreter); the stable part must also survive a warm repeat
    # The warm repeat in the same process is compared only on the part a driver declares stable: a correct
    # implementation may memoise (lru_cache on a helper), so traced line counts and anything derived from
    # them can legitimately differ between a cold and a warm run.  Drivers without a declared stable part
    # are compared cold-vs-cold only.
    mismatch = a != c
    if "|" in a and a.split("|")[0] != b.split("|")[0]:
        mismatch = True
    return {"in_process": a, "repeat": b, "fresh_interpreter_other_hashseed": c, "mismatch": mismatch}
