"""Simulation kernel: seed derivation, named PRNG streams, event log with digest, byte specs.

One integer decides everything: VERIF_SEED -> run seed -> named streams.  PRNGs are used only to
BUILD scenarios (plain JSON data); executors are pure functions of the scenario and the code
under test.  Nothing here reads a clock or iterates an unordered container.
"""
import hashlib
import json
import random


def sub_seed(*parts) -> int:
    h = hashlib.sha256("/".join(str(p) for p in parts).encode()).digest()
    return int.from_bytes(h[:8], "big")


class Streams:
    """Named PRNG streams derived from one run seed; adding a draw to one never shifts another."""

    def __init__(self, seed: int):
        self.seed = seed
        self._s = {}

    def __getitem__(self, name: str) -> random.Random:
        r = self._s.get(name)
        if r is None:
            r = self._s[name] = random.Random(sub_seed(self.seed, name))
        return r


# ---------------------------------------------------------------------------------------------
# byte specs: compact JSON descriptions of byte strings
# ---------------------------------------------------------------------------------------------

def _poscode(i: int) -> int:
    # position code: non-periodic over many blocks, neighbours differ, so a moved / dropped /
    # duplicated byte changes any comparison
    return (i % 251 + 17 * (i // 251) + 101 * (i // 63001)) % 256


_POS_N = 1 << 17
_POS = bytes(_poscode(i) for i in range(_POS_N))


def posbytes(start: int, n: int) -> bytes:
    if start + n <= _POS_N:
        return _POS[start:start + n]
    return bytes(_poscode(i) for i in range(start, start + n))


def mk_bytes(spec) -> bytes:
    """spec: {"pos":[start,n]} | {"fill":[byte,n]} | {"hex":".."} | {"rnd":[seed,n]} | {"cat":[spec,...]}"""
    if isinstance(spec, (bytes, bytearray)):
        return bytes(spec)
    if "pos" in spec:
        return posbytes(spec["pos"][0], spec["pos"][1])
    if "fill" in spec:
        return bytes([spec["fill"][0]]) * spec["fill"][1]
    if "hex" in spec:
        return bytes.fromhex(spec["hex"])
    if "rnd" in spec:
        return random.Random(spec["rnd"][0]).randbytes(spec["rnd"][1])
    if "cat" in spec:
        return b"".join(mk_bytes(s) for s in spec["cat"])
    raise ValueError(f"bad byte spec {spec!r}")


def spec_len(spec) -> int:
    if "pos" in spec:
        return spec["pos"][1]
    if "fill" in spec:
        return spec["fill"][1]
    if "hex" in spec:
        return len(spec["hex"]) // 2
    if "rnd" in spec:
        return spec["rnd"][1]
    if "cat" in spec:
        return sum(spec_len(s) for s in spec["cat"])
    raise ValueError(f"bad byte spec {spec!r}")


def hexspec(b: bytes) -> dict:
    return {"hex": bytes(b).hex()}


def bsum(b) -> str:
    """short, deterministic summary of a byte string for event logs"""
    if b is None:
        return "None"
    b = bytes(b)
    return f"{len(b)}:{hashlib.sha1(b).hexdigest()[:10]}"


# ---------------------------------------------------------------------------------------------
# event log
# ---------------------------------------------------------------------------------------------

class EventLog:
    """Global event sequence: every actor step, I/O call and fault gets the next number.

    This sequence number is the simulator's only notion of time (cardutil reads no clock)."""

    __slots__ = ("events", "seq", "keep")

    def __init__(self, keep: bool = True):
        self.events = []
        self.seq = 0
        self.keep = keep

    def emit(self, actor, op, *args):
        self.seq += 1
        if self.keep:
            self.events.append((self.seq, actor, op) + args)
        return self.seq

    def digest(self) -> str:
        h = hashlib.sha256()
        for e in self.events:
            h.update(repr(e).encode())
            h.update(b"\n")
        return h.hexdigest()[:16]


def canon(obj) -> str:
    return json.dumps(obj, sort_keys=True, separators=(",", ":"), default=_json_default)


def _json_default(o):
    if isinstance(o, (bytes, bytearray)):
        return {"hex": bytes(o).hex()}
    if isinstance(o, (set, frozenset)):
        return sorted(o)
    raise TypeError(f"not JSON serialisable: {type(o)}")


def digest_of(obj) -> str:
    return hashlib.sha256(canon(obj).encode()).hexdigest()[:16]


def sig64(*parts) -> int:
    """64-bit signature for distinctness sets (kept as ints to bound memory)"""
    h = hashlib.blake2b(repr(parts).encode(), digest_size=8).digest()
    return int.from_bytes(h, "big")
