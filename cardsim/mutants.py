"""Catalogue of property-breaking source edits, used ONLY by the sensitivity self-test
(`./check selftest sensitivity`).  Each entry: id, property, file, old text (must occur exactly
once), new text, expect ('violation' | 'clean').  'clean' entries are negative controls: edits
that keep the property and must not raise an alarm.
"""

M = []


def mut(mid, prop, file, old, new, expect="violation", note="", more=()):
    """more: further (file, old, new) edits of the same mutant (two cooperating sites)"""
    M.append({"id": mid, "property": prop, "file": file, "old": old, "new": new,
              "expect": expect, "note": note, "more": [list(x) for x in more]})


MC = "cardutil/mciipm.py"
ISO = "cardutil/iso8583.py"

# ---- C09 ------------------------------------------------------------------------------------
mut("c09-partial-record-delivered", "C09", MC,
    "        if len(record) != record_length:\n            raise MciIpmDataError(f\"Unable to read complete record",
    "        if len(record) != record_length and len(record) == 0:\n            raise MciIpmDataError(f\"Unable to read complete record",
    note="short-record check weakened: a partial last record is delivered")
mut("c09-unblock-drops-two-bytes", "C09", MC,
    "            self.buffer += block[:1012]",
    "            self.buffer += block[:1012] if len(block) == 1014 else block[:-2]",
    note="a short final block loses two payload bytes: a wholly contained record is lost / error")
mut("c09-struct-error-on-short-length", "C09", MC,
    "        if len(record_length_raw) != 4:",
    "        if len(record_length_raw) == 0:",
    note="1-3 byte length field reaches struct.unpack")
mut("c09-short-length-yields-empty", "C09", MC,
    "                           f' got {len(record_length_raw)} -- assuming end of data')\n            raise StopIteration",
    "                           f' got {len(record_length_raw)} -- assuming end of data')\n            if record_length_raw:\n                self.record_number += 1\n                return b''\n            raise StopIteration",
    note="a cut inside a length field invents an empty record")
mut("c09-neg-refill-lt", "C09", MC,
    "        while read_all or len(self.buffer) <= bytes_to_read:",
    "        while read_all or len(self.buffer) < bytes_to_read:",
    expect="clean", note="negative control: refill with < instead of <= is still correct")

# ---- C03 ------------------------------------------------------------------------------------
mut("c03-max-length-refused", "C03", MC,
    "        if record_length < 0 or record_length > config.config.get(\"MAX_VBS_RECORD_LENGTH\", 6000):",
    "        if record_length < 0 or record_length >= config.config.get(\"MAX_VBS_RECORD_LENGTH\", 6000):",
    note="record of exactly the configured maximum is refused")
mut("c03-block-write-le", "C03", MC,
    "        if len(bytes_to_write) < self.remaining_chars:",
    "        if len(bytes_to_write) <= self.remaining_chars:",
    expect="clean", note="negative control: equivalent edit - the trailer is simply left pending (remaining_chars == 0) and written by the next write / finalise")
mut("c03-bytes-to-list-drops-blocked", "C03", MC,
    "    return [record for record in VbsReader(file_in, **kwargs)]",
    "    return [record for record in VbsReader(file_in)]",
    note="convenience reader ignores blocked=True")
mut("c03-length-packed-wrong-side", "C03", MC,
    "        record_length_raw = struct.pack(\">I\", record_length)\n        # add length to output data",
    "        record_length_raw = struct.pack(\">H\", record_length) + b'\\x00\\x00' if record_length > 65535 else struct.pack(\">I\", record_length)\n        # add length to output data",
    note="only records above 65535 bytes (possible when MAX_VBS_RECORD_LENGTH is raised) take the broken branch: struct.error / wrong prefix")

# ---- C04 ------------------------------------------------------------------------------------
mut("c04-fits-le", "C04", MC,
    "        if len(bytes_to_write) < self.remaining_chars:",
    "        if len(bytes_to_write) <= self.remaining_chars:",
    expect="clean", note="negative control: equivalent edit (trailer left pending)")
mut("c03-reader-max-off-by-one-knob", "C03", MC,
    "        record = self.vbs_data.read(record_length)\n        if len(record) != record_length:",
    "        record = self.vbs_data.read(record_length if record_length != 1012 else 1011)\n        if len(record) != record_length:",
    note="a record of exactly one payload is read short")
mut("c04-whole-block-ge", "C04", MC,
    "        while len(bytes_to_write) > 1012:",
    "        while len(bytes_to_write) >= 1012:",
    expect="clean", note="negative control: equivalent refactor - a remainder of exactly 1012 is written as a whole block at once instead of leaving the trailer pending")
mut("c04-finalise-pad-short", "C04", MC,
    "        self.file_obj.write(self.PAD_CHAR * (self.remaining_chars + 2))",
    "        self.file_obj.write(self.PAD_CHAR * (self.remaining_chars + 2 if self.remaining_chars else 1))")
mut("c04-remainder-off-by-one", "C04", MC,
    "        self.remaining_chars = 1012-len(bytes_to_write)",
    "        self.remaining_chars = 1012-len(bytes_to_write) - (1 if len(bytes_to_write) == 1011 else 0)")
mut("c04-trailer-before-slice", "C04", MC,
    "        self.file_obj.write(bytes_to_write[:self.remaining_chars])\n        self.file_obj.write(self.PAD_CHAR * 2)",
    "        self.file_obj.write(self.PAD_CHAR * 2)\n        self.file_obj.write(bytes_to_write[:self.remaining_chars])")
mut("c04-oneshot-drops-short-tail", "C04", MC,
    "        if len(record) != 1012:\n            record += (1012 - len(record)) * pad_char",
    "        if len(record) != 1012:\n            if len(record) < 3:\n                break\n            record += (1012 - len(record)) * pad_char",
    note="one-shot blocker drops a final chunk of 1-2 bytes")

# ---- C05 ------------------------------------------------------------------------------------
mut("c05-block-slice-1013", "C05", MC,
    "            self.buffer += block[:1012]",
    "            self.buffer += block[:1013]")
mut("c05-output-off-by-one-at-edge", "C05", MC,
    "        output = self.buffer[:bytes_to_read]\n        self.buffer = self.buffer[bytes_to_read:]",
    "        output = self.buffer[:bytes_to_read]\n        self.buffer = self.buffer[bytes_to_read + (1 if bytes_to_read == 1012 and len(self.buffer) == 2024 else 0):]")
mut("c05-validate-skips-inner-trailers", "C05", MC,
    "        if record[-2:] != pad_char * 2:",
    "        if record[-1:] != pad_char:",
    note="only the last trailer byte is validated")
mut("c05-validate-accepts-short-last", "C05", MC,
    "        if len(record) != 1014:\n            raise MciIpmDataError('Invalid record size for 1014 blocked')",
    "        if len(record) != 1014 and len(record) < 1000:\n            raise MciIpmDataError('Invalid record size for 1014 blocked')")
mut("c05-revert-nosize-fix", "C05", MC,
    "        if read_all:  # no size requested: hand over everything that remains\n            bytes_to_read = len(self.buffer)\n",
    "",
    note="reverts fix 2f16548: read() with no size returns b''")
mut("c05-nosize-reads-only-buffer", "C05", MC,
    "        read_all = True if not bytes_to_read else False\n        while read_all or len(self.buffer) <= bytes_to_read:",
    "        read_all = True if not bytes_to_read else False\n        while (read_all and not self.buffer) or (not read_all and len(self.buffer) <= bytes_to_read):",
    note="read() with no size hands over only what is buffered when the buffer is non-empty (needs a sized read first)")
mut("c05-neg-refill-lt", "C05", MC,
    "        while read_all or len(self.buffer) <= bytes_to_read:",
    "        while read_all or len(self.buffer) < bytes_to_read:",
    expect="clean", note="negative control")

# ---- C11 ------------------------------------------------------------------------------------
mut("c11-revert-guard", "C11", MC,
    "        if self._finalised:\n            return\n",
    "",
    note="reverts fix 5312702: a second finalisation overwrites the first record length")
mut("c11-guard-only-in-exit", "C11", MC,
    "    def __exit__(self, exc_type, exc_val, exc_tb) -> None:\n        self.close()",
    "    def __exit__(self, exc_type, exc_val, exc_tb) -> None:\n        self.close()\n        self._finalised = False",
    note="exit re-arms the writer: only the history exit;close (close after leaving the with block) breaks")
mut("c11-blocked-pads-twice", "C11", MC,
    "        self.out_file.seek(0)\n        self._finalised = True",
    "        self.out_file.seek(0)\n        self._finalised = not isinstance(self.out_file, Block1014)",
    note="guard not set for 1014 output: second finalisation pads and overwrites, blocked files only")
mut("c11-third-close-breaks", "C11", MC,
    "        if self._finalised:\n            return\n",
    "        if self._finalised:\n            self._finalised = None\n            return\n        if self._finalised is None:\n            self.out_file.seek(0)\n",
    note="the second finalisation disarms the guard: only histories with >= 3 finalisations break")

# ---- C06 ------------------------------------------------------------------------------------
mut("c06-class-level-counter", "C06", MC,
    "        self.record_number += 1    # increment record counter",
    "        VbsReader.record_number = self.record_number + 1    # increment record counter",
    note="record counter kept on the class: shared by instances")
mut("c06-shared-unblock-buffer", "C06", MC,
    "        self.file_obj = file_obj\n        self.buffer = b''",
    "        self.file_obj = file_obj\n        self.__class__._shared = getattr(self.__class__, '_shared', None) or bytearray()\n        self.buffer = b''",
    expect="clean", note="negative control: unused class attribute")
mut("c06-writer-ignores-encoding-for-prefix", "C06", ISO,
    "        output += format(field_length, '0' + str(length_size)).encode(encoding)",
    "        output += format(field_length, '0' + str(length_size)).encode('latin_1')",
    note="length prefixes always ASCII: EBCDIC files unreadable")

# ---- C07 ------------------------------------------------------------------------------------
mut("c07-revert-pds-fix", "C07", ISO,
    "        try:\n            pds_field_length = int(field_data[field_pointer+4:field_pointer+7])\n        except ValueError as ex:\n            raise Iso8583DataError(f'Invalid PDS field length for PDS{pds_field_tag}', original_exception=ex)\n        if pds_field_length < 0:\n            raise Iso8583DataError(f'Negative PDS field length for PDS{pds_field_tag}')\n",
    "        pds_field_length = int(field_data[field_pointer+4:field_pointer+7])\n",
    note="reverts fix 6a4f274 (ValueError and endless loop)")
mut("c07-pds-negative-unchecked", "C07", ISO,
    "        if pds_field_length < 0:\n            raise Iso8583DataError(f'Negative PDS field length for PDS{pds_field_tag}')\n",
    "",
    note="only the negative check removed: the PDS walker can run backwards forever (needs a sub-length of -07 or below)")
mut("c07-pds-negative-only-below-minus7", "C07", ISO,
    "        if pds_field_length < 0:",
    "        if pds_field_length < -7:",
    note="hang only for the sub-length -07 exactly (pointer stands still)")
mut("c07-revert-icc-fix", "C07", ISO,
    "        if not field_length_raw:\n            raise Iso8583DataError(f'ICC tag {field_tag_display.decode()} has no length byte',\n                                   binary_context_data=field_data)\n",
    "",
    note="reverts fix 992f8d1 (struct.error)")
mut("c07-revert-hexbitmap-fix", "C07", ISO,
    "    except (struct.error, binascii.Error) as ex:",
    "    except struct.error as ex:",
    note="reverts fix d829c0e (binascii.Error)")
mut("c07-revert-decimal-fix", "C07", ISO,
    "    except (ValueError, decimal.InvalidOperation) as ex:",
    "    except ValueError as ex:",
    note="reverts fix b8cd14b (decimal.InvalidOperation; needs a generated configuration with a decimal field)")
mut("c07-reader-lets-iso-error-escape", "C07", MC,
    "        except CardutilError as ex:\n            raise MciIpmDataError(",
    "        except MciIpmDataError as ex:\n            raise MciIpmDataError(",
    note="IpmReader no longer wraps Iso8583DataError: the tools would traceback")
mut("c07-final-length-assert", "C07", ISO,
    "    if message_pointer != len(message_data):\n        raise Iso8583DataError(\n            f'Message data not correct length. '\n            f'Bitmap indicates len={message_pointer}, message is len={len(message_data)}',\n            binary_context_data=message\n        )",
    "    assert message_pointer == len(message_data), 'Message data not correct length'",
    note="length check as an assert: AssertionError escapes")
mut("c07-prefix-decode-unguarded", "C07", ISO,
    "        except UnicodeDecodeError as ex:\n            raise Iso8583DataError(f'Unable to decode DE{bit} field length',",
    "        except UnicodeEncodeError as ex:\n            raise Iso8583DataError(f'Unable to decode DE{bit} field length',",
    note="UnicodeDecodeError from a length prefix escapes (ascii codec only)")

# ---- C08 ------------------------------------------------------------------------------------
mut("c08-revert-negative-fix", "C08", ISO,
    "        if field_length < 0:\n            raise Iso8583DataError(f'Negative field length DE{bit}', binary_context_data=message_data)\n",
    "",
    note="reverts fix d2adaea: negative prefix accepted, two elements share bytes (needs a splice whose tail still tiles)")
mut("c08-zero-length-rejected", "C08", ISO,
    "        if field_length < 0:\n            raise Iso8583DataError(f'Negative field length DE{bit}'",
    "        if field_length <= 0:\n            raise Iso8583DataError(f'Negative field length DE{bit}'",
    note="over-strict decoder: zero-length variable fields refused")
mut("c08-final-pointer-lt", "C08", ISO,
    "    if message_pointer != len(message_data):",
    "    if message_pointer < len(message_data):",
    note="overrun accepted: last elements read short")
mut("c08-pds-walker-step", "C08", ISO,
    "        field_pointer += 7+pds_field_length",
    "        field_pointer += 7+pds_field_length + (1 if pds_field_length == 0 else 0)",
    note="PDS walker mis-steps over an empty value (needs a zero-length PDS sub-element followed by another)")
mut("c08-bad-numeral-as-zero", "C08", ISO,
    "        except ValueError as ex:\n            raise Iso8583DataError(f'Invalid field length DE{bit}',\n                                   binary_context_data=message_data, original_exception=ex)",
    "        except ValueError as ex:\n            field_length = 0",
    note="garbage prefix read as zero: a message without exact reading is accepted when the rest happens to tile")
mut("c08-neg-strict-numerals", "C08", ISO,
    "        try:\n            field_length = int(field_length_string)",
    "        try:\n            if not field_length_string.isdigit():\n                raise ValueError('length prefix must be digits')\n            field_length = int(field_length_string)",
    expect="clean", note="negative control: refusing ' 2', '+2', '1_' etc. is allowed (don't-care numerals)")
mut("c08-fixed-field-rstrip", "C08", ISO,
    "    return_values[\"DE\" + str(bit)] = field_data\n",
    "    return_values[\"DE\" + str(bit)] = field_data.rstrip() if isinstance(field_data, str) and bit_config['field_type'] == 'FIXED' and len(field_data) > 30 else field_data\n",
    note="long fixed text fields come back stripped: value is not the content of its own bytes (needs a fixed field > 30 wide ending in a space: generated configurations)")

# ---- C10 ------------------------------------------------------------------------------------
mut("c10-revert-record-number-fix", "C10", MC,
    "                record_number=self.record_number - 1,  # counter already points at the next record",
    "                record_number=self.record_number,",
    note="reverts fix ea06b2f: message-level errors report k+1")
mut("c10-context-without-prefix", "C10", MC,
    "        self.last_record = record_length_raw + record  # save last record read",
    "        self.last_record = record  # save last record read",
    note="context data of message-level errors lacks the length prefix")
mut("c10-framing-errors-from-zero", "C10", MC,
    "                                  record_number=self.record_number,\n                                  binary_context_data=record_length_raw + record)",
    "                                  record_number=self.record_number - 1,\n                                  binary_context_data=record_length_raw + record)",
    note="short-record errors numbered one too low (record 1 -> 0 -> None)")
mut("c10-oversize-context-stale", "C10", MC,
    "                                  record_number=self.record_number,\n                                  binary_context_data=record_length_raw)",
    "                                  record_number=self.record_number,\n                                  binary_context_data=self.last_record or record_length_raw)",
    note="oversize-length error carries the PREVIOUS record's bytes (only visible for k > 1)")
mut("c10-last-record-class-level", "C10", MC,
    "        self.last_record = record_length_raw + record  # save last record read",
    "        VbsReader.last_record = record_length_raw + record if self.record_number > 1 or VbsReader.last_record is None else VbsReader.last_record  # save last record read",
    note="first record's bytes kept on the class and not refreshed: stale context for an error in record 1 of a later file")

# ---- C06 (more) -----------------------------------------------------------------------------
mut("c06-module-scratch-bitmap", "C06", ISO,
    "    output_data = b''\n    bitmap_values = [False] * 128\n",
    "    output_data = b''\n    bitmap_values = globals().setdefault('_SCRATCH_BITMAP', [])\n    bitmap_values[:] = [False] * 128\n",
    note="module-level scratch list reset at the start of each dumps: only a pre-emption between reset and use (line-level schedule, two writers) can see it")
mut("c06-shared-unblock-pool", "C06", MC,
    "        self.file_obj = file_obj\n        self.buffer = b''",
    "        self.file_obj = file_obj\n        self.buffer = b''\n        self._pool = Unblock1014._POOL",
    more=[(MC, "class Unblock1014(object):\n", "class Unblock1014(object):\n    _POOL = {}\n"),
          (MC, "            self.buffer += block[:1012]\n        if read_all:",
               "            self._pool['last'] = block[:1012]\n            self.buffer += self._pool['last']\n        if read_all:"),
          (MC, "        output = self.buffer[:bytes_to_read]\n        self.buffer = self.buffer[bytes_to_read:]",
               "        if len(self.buffer) < bytes_to_read and self._pool.get('last') is not None and len(self._pool['last']) == 1012 and self.buffer[-1012:] != self._pool['last'][-len(self.buffer[-1012:]):]:\n            self.buffer += b''\n        output = self.buffer[:bytes_to_read]\n        self.buffer = self.buffer[bytes_to_read:]")],
    note="a class-level pool written and read back on adjacent lines: harmless at operation level, but a pre-emption between the two lines (line-level schedule, two blocked readers) hands one reader the other's block")
mut("c06-config-mutated-by-reader", "C06", ISO,
    "    field_length = bit_config['field_length']\n\n    length_size = _get_field_length(bit_config)\n\n    if length_size > 0:",
    "    field_length = bit_config['field_length']\n\n    length_size = bit_config.get('_ls') or _get_field_length(bit_config)\n    bit_config['_ls'] = length_size\n\n    if length_size > 0:",
    expect="clean", note="negative control: memoises a derived value inside the shared config dict; value never changes, so instances are not influenced")
mut("c06-writer-encoding-cached-on-class", "C06", MC,
    "        self.encoding = encoding\n        self.iso_config = iso_config\n        super(IpmWriter, self).__init__(file_obj, **kwargs)",
    "        IpmWriter.encoding = encoding\n        self.iso_config = iso_config\n        super(IpmWriter, self).__init__(file_obj, **kwargs)",
    note="encoding kept on the class: a writer created later changes the encoding of one created earlier (op-level: needs two IpmWriters with different encodings alive at once)")

mut("c06-encoding-stamped-into-shared-config", "C06", MC,
    "        self.encoding = encoding\n        self.iso_config = iso_config\n        super(IpmReader, self).__init__(ipm_file, **kwargs)",
    "        self.encoding = encoding\n        self.iso_config = iso_config\n        if iso_config and encoding:\n            for _bit in iso_config.values():\n                _bit['_enc'] = encoding\n        super(IpmReader, self).__init__(ipm_file, **kwargs)",
    more=[(ISO, "    field_length = bit_config['field_length']\n\n    length_size = _get_field_length(bit_config)",
                "    encoding = bit_config.get('_enc', encoding)\n    field_length = bit_config['field_length']\n\n    length_size = _get_field_length(bit_config)")],
    note="two cooperating sites: a reader stamps its encoding into the configuration dict it was given, the decoder prefers the stamp; instances that share one configuration object but use different encodings influence each other (needs share_config + creation order under the schedule)")

mut("c10-operator-text-uses-wrong-number", "C10", "cardutil/cli/__init__.py",
    "        print(f'Error detected in record {err.record_number}')",
    "        print(f'Error detected in record {err.record_number - (1 if err.ex else 0)}')",
    note="operator report subtracts one for wrapped (message-level) errors: error object is right, the printed text is not")

# ---- history-dependent (sticky class-level state): replayed as a whole task ------------------------
mut("c03-finalised-flag-on-class", "C03", MC,
    "        self.out_file.seek(0)\n        self._finalised = True",
    "        self.out_file.seek(0)\n        VbsWriter._finalised = True",
    more=[(MC, "        self._finalised = False\n        self.out_file = out_file", "        self.out_file = out_file")],
    note="finalised flag kept on the class: the first writer of a process finalises, every later one silently does not (no terminator / no 1014 fill). A single scenario replayed alone passes; the check must fall back to a task-history replay")

# ---- semantics-preserving refactors: negative controls that must stay green on EVERY check ---------------
REFACTORS = []


def refactor(mid, file, old, new, note, more=()):
    for prop in ("C03", "C04", "C05", "C06", "C07", "C08", "C09", "C10", "C11"):
        if prop in REFACTOR_PROPS.get(mid, ()):
            mut(f"{mid}@{prop}", prop, file, old, new, expect="clean", note="refactor (negative control): " + note, more=more)


REFACTOR_PROPS = {
    "rf-writer-single-write-call": ("C03", "C06", "C09", "C11"),
    "rf-blocker-buffers-whole-blocks": ("C03", "C04", "C06", "C09", "C11"),
    "rf-reader-private-counters": ("C06", "C09", "C10"),
    "rf-short-length-is-an-error": ("C03", "C07", "C09", "C10"),
    "rf-tools-return-1": ("C07", "C10"),
    "rf-pds-tags-must-be-digits": ("C06", "C07", "C08", "C10"),
    "rf-memoised-bitmap-list": ("C06", "C07", "C08", "C10"),
}
refactor("rf-writer-single-write-call", MC,
         "        self.out_file.write(record_length_raw)\n        # add data to output\n        self.out_file.write(record)",
         "        # add data to output\n        self.out_file.write(record_length_raw + record)",
         "VbsWriter writes prefix and data in one call (different I/O pattern, different torn writes)")
refactor("rf-blocker-buffers-whole-blocks", MC,
         "    def write(self, bytes_to_write: bytes) -> None:\n        \"\"\"\n        Write requested bytes to the output file object.\n        \"\"\"\n",
         "    def write(self, bytes_to_write: bytes) -> None:\n        \"\"\"\n        Write requested bytes to the output file object.\n        \"\"\"\n        self._pending = self._pending + bytes_to_write\n        while len(self._pending) >= 1012:\n            self.file_obj.write(self._pending[:1012] + self.PAD_CHAR * 2)\n            self._pending = self._pending[1012:]\n        return\n",
         "Block1014 buffers and writes whole 1014-byte blocks only; the rest is flushed by finalise",
         more=[(MC, "        self.file_obj.write(self.PAD_CHAR * (self.remaining_chars + 2))\n        self.remaining_chars = 1012",
                    "        _p = self._pending\n        self.file_obj.write(_p + self.PAD_CHAR * (1012 - len(_p) + 2))\n        self._pending = b''\n        self.remaining_chars = 1012"),
               (MC, "        self.file_obj = file_obj\n        self.remaining_chars = 1012", "        self.file_obj = file_obj\n        self._pending = b''\n        self.remaining_chars = 1012")])
refactor("rf-reader-private-counters", MC,
         "    record_number = 1\n    last_record = None\n",
         "    _record_number = 1\n    _last_record = None\n",
         "VbsReader keeps its counter and last record in private attributes",
         more=[(MC, "                                  record_number=self.record_number,\n                                  binary_context_data=record_length_raw)",
                    "                                  record_number=self._record_number,\n                                  binary_context_data=record_length_raw)"),
               (MC, "                                  record_number=self.record_number,\n                                  binary_context_data=record_length_raw + record)",
                    "                                  record_number=self._record_number,\n                                  binary_context_data=record_length_raw + record)"),
               (MC, "        self.last_record = record_length_raw + record  # save last record read\n        self.record_number += 1    # increment record counter",
                    "        self._last_record = record_length_raw + record  # save last record read\n        self._record_number += 1    # increment record counter"),
               (MC, "                binary_context_data=self.last_record,\n                record_number=self.record_number - 1,",
                    "                binary_context_data=self._last_record,\n                record_number=self._record_number - 1,")])
refactor("rf-short-length-is-an-error", MC,
         "                           f' got {len(record_length_raw)} -- assuming end of data')\n            raise StopIteration",
         "                           f' got {len(record_length_raw)} -- assuming end of data')\n            if record_length_raw:\n                raise MciIpmDataError('Truncated record length', record_number=self.record_number,\n                                      binary_context_data=record_length_raw)\n            raise StopIteration",
         "a cut inside a length field raises the library's data error (with the bytes that exist) instead of ending the iteration")
refactor("rf-tools-return-1", "cardutil/cli/mci_ipm_to_csv.py",
         "        print_check_details(in_ipm_info)\n        return -1",
         "        print_check_details(in_ipm_info)\n        return 1",
         "tools signal failure with 1 instead of -1 (diagnostic still printed)",
         more=[("cardutil/cli/mideu.py", "        print_exception_details(err)\n        return -1", "        print_exception_details(err)\n        return 1")])
refactor("rf-pds-tags-must-be-digits", ISO,
         "        # get the pds length\n        try:",
         "        if not pds_field_tag.isdigit():\n            raise Iso8583DataError(f'Invalid PDS tag {pds_field_tag!r}')\n        # get the pds length\n        try:",
         "PDS tags that are not digits are refused (don't-care content)")
refactor("rf-memoised-bitmap-list", ISO,
         "def _get_bitmap_list(binary_bitmap):\n",
         "import functools\n\n\n@functools.lru_cache(maxsize=256)\ndef _get_bitmap_list(binary_bitmap):\n",
         "a pure helper memoised with lru_cache: warm runs execute fewer lines than cold ones, results are identical")

# ---- non-termination outside the decoders: must be reported (bounded), not hang the check ------------------
mut("c05-nosize-read-spins-at-eof", "C05", MC,
    "            if not block:  # eof\n                break",
    "            if not block and not read_all:  # eof\n                break",
    note="a read with no size never returns once the file is exhausted (every history ending in read() hangs): the check must report it within minutes")
