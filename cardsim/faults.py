"""Fault planners for stored ISO8583 messages and IPM files.

Sites are not guessed: they come from the byte spans the reference reader (refiso.ref_read) reports
for the clean message - every length prefix, bitmap byte, PDS header, TLV length, MTI and typed
field.  Faults are plain dicts understood by simfs.apply_fault, plus a 'cls' label for evidence.
"""
from . import refiso


def enc_text(s: str, enc: str) -> bytes:
    try:
        return s.encode(enc)
    except UnicodeEncodeError:
        return s.encode("latin_1", "replace")


CURATED_CHARS = "0159-+ _aZ.*%"
CURATED_RAW = [0x00, 0xFF, 0x40, 0xF0, 0xF9, 0x60, 0x4E, 0xB2, 0x30, 0x39, 0x2D, 0x20, 0x80, 0x0A]


def curated_values(enc):
    vals = set(CURATED_RAW)
    for ch in CURATED_CHARS:
        bs = enc_text(ch, enc)
        if len(bs) == 1:
            vals.add(bs[0])
    return sorted(vals)


NUMERALS = {
    2: ["-2", "-1", "-0", "+1", " 1", "1 ", "_1", "1_", "00", "99", "0x", "²1", "--", "  ", "1.", "9a"],
    3: ["-03", "-02", "-01", " -3", "-00", "+01", " 01", "01 ", "1_0", "000", "999", "abc", "0x1", "  1",
        "-07", "-06", "1e1", "²³¹", "   ", "00-"],
}


def sub(off, val, cls):
    return {"kind": "substitute", "off": off, "val": val, "cls": cls}


def rep(off, n, data: bytes, cls):
    return {"kind": "replace", "off": off, "n": n, "hex": data.hex(), "cls": cls}


def sites(spans, hex_bitmap=False):
    """[(offset, site class)] of every byte of every length prefix, PDS sub-length, bitmap byte, TLV
    length byte, MTI byte and typed-field byte"""
    out = []
    for o in range(*spans["mti"]):
        out.append((o, "mti"))
    for o in range(*spans["bitmap"]):
        out.append((o, "bitmap"))
    for el in spans["elems"]:
        if el["prefix"]:
            for o in range(*el["prefix"]):
                out.append((o, "de_prefix"))
        if el.get("ptype") in ("int", "long", "datetime", "decimal"):
            for o in range(*el["data"]):
                out.append((o, "typed_field"))
        for s in el.get("pds") or []:
            for o in range(*s["len"]):
                out.append((o, "pds_len"))
            for o in range(*s["tag"]):
                out.append((o, "pds_tag"))
        for s in el.get("tlv") or []:
            if s["len"]:
                out.append((s["len"][0], "tlv_len"))
            out.append((s["tag"][0], "tlv_tag"))
    return out


TLV_VALUES = [0x00, 0x01, 0x1F, 0x5F, 0x7F, 0x80, 0x81, 0x82, 0x84, 0x9F, 0xFE, 0xFF]


def site_values(cls, off, msg, enc, hex_bitmap, all_values=False):
    """values substituted at one site; per site class so that every value is meaningful there"""
    if all_values:
        return range(256)
    if cls == "bitmap":
        if hex_bitmap:
            return sorted(set(b"0123456789abcdefABCDEFg \x00\xff"))
        cur = msg[off]
        return sorted(set([cur ^ (1 << b) for b in range(8)] + [0x00, 0xFF, 0x80]))
    if cls in ("tlv_len", "tlv_tag"):
        return TLV_VALUES
    return curated_values(enc)


def directed_substitutions(spans, enc, msg, hex_bitmap=False, all_values=False, classes=None):
    for off, cls in sites(spans):
        if classes and cls not in classes:
            continue
        for v in site_values(cls, off, msg, enc, hex_bitmap, all_values):
            if v != msg[off]:
                yield [sub(off, v, cls)]


PDS_TAG_TOKENS = ["    ", " \n  ", "\t\t\t\t", "\r\n  ", "  \x0b ", "0000", "9999", "abcd", "-001", "+001", "1 23", "\x00\x00\x00\x00"]


def pds_tag_faults(spans, enc):
    """each PDS tag (4 characters) rewritten as a whole: white space of several kinds, non-digits, signs"""
    for el in spans["elems"]:
        for s_ in (el.get("pds") or [])[:6]:
            a, b = s_["tag"]
            for tok in PDS_TAG_TOKENS:
                bs = enc_text(tok, enc)
                if len(bs) == 4:
                    yield [rep(a, 4, bs, "pds_tag_token")]


PDS_HEADER_TOKENS = ["0%580A3", "%s%s-01", "%d  abc", "{0} 0x1", "0001-07", "\\n\\t 00a", "%(x)s999"]


def pds_header_faults(spans, enc):
    """a PDS header (tag + sub-length, 7 characters) rewritten as a whole: text that is special to string
    formatting / templating together with a sub-length that cannot be read (ends up inside error messages)"""
    for el in spans["elems"]:
        for s_ in (el.get("pds") or [])[:3]:
            a = s_["tag"][0]
            for tok in PDS_HEADER_TOKENS:
                bs = enc_text(tok, enc)
                if len(bs) == 7:
                    yield [rep(a, 7, bs, "pds_header_token")]


def numeral_faults(spans, enc):
    """each DE length prefix and each PDS sub-length rewritten to every curated odd numeral"""
    for el in spans["elems"]:
        if el["prefix"]:
            a, b = el["prefix"]
            for num in NUMERALS[b - a]:
                yield [rep(a, b - a, enc_text(num, enc), "numeral_de_prefix")]
        for s in el.get("pds") or []:
            a, b = s["len"]
            for num in NUMERALS[3]:
                yield [rep(a, 3, enc_text(num, enc), "numeral_pds_len")]


TYPED_TOKENS = ["NaN", "nan", "sNaN", "Inf", "-Inf", "Infinity", "-Infinity", "1E5", "1e-3", "0x10", "+1", "-1", "-0",
                "1_0", "١٢", ".5", "5.", "1.2.3", "--1", "99999999999999", "0"]


def typed_token_faults(spans, enc):
    """a typed field (int / long / decimal / datetime) rewritten as a whole: special numerals padded with
    spaces or zeros on either side, all zeros, all blanks, all nines (coordinated multi-byte faults)"""
    for el in spans["elems"]:
        if el.get("ptype") not in ("int", "long", "decimal", "datetime") or el["type"] != "FIXED":
            continue
        a, b = el["data"]
        w = b - a
        fills = ["0" * w, " " * w, "9" * w, ("0" * w)[:-1] + " ", " " + ("0" * w)[1:]]
        for tok in TYPED_TOKENS:
            if len(tok) <= w:
                fills += [tok.rjust(w), tok.ljust(w), tok.rjust(w, "0")]
        seen = set()
        for t in fills:
            if t in seen:
                continue
            seen.add(t)
            bs = enc_text(t, enc)
            if len(bs) == w:
                yield [rep(a, w, bs, "typed_field_token")]


def hex_bitmap_pair_faults(spans):
    """hex bitmap rendering: each pair of hex characters (one bitmap byte) rewritten together - white space
    (which lenient hex parsers skip), upper case, a 0x prefix, non-hex letters"""
    a, b = spans["bitmap"]
    if b - a != 32:
        return
    for off in range(a, b, 2):
        for pair in (b"  ", b"\t\t", b"\n\n", b" \t", b"FF", b"zz", b"0x", b"0X", b"-1", b"+1", b"\x00\x00"):
            yield [rep(off, 2, pair, "hex_bitmap_pair")]
    yield [rep(a, 32, b" " * 32, "hex_bitmap_pair")]
    yield [rep(a + 2, 4, b"    ", "hex_bitmap_pair")]


def splice_faults(msg: bytes, spans, enc):
    """directed mis-framing: a variable element's prefix rewritten to a negative numeral with the
    following bytes laid out so that a naive pointer walk (pointer += prefix size + declared length)
    still ends exactly at the end of the message.  msg' = msg[:p] + numeral + R[j:]  where R are the
    bytes after the element and -j the declared length."""
    elems = spans["elems"]
    for i, el in enumerate(elems):
        if not el["prefix"]:
            continue
        a, b = el["prefix"]
        ls = b - a
        end = el["data"][1]
        nxt = elems[i + 1] if i + 1 < len(elems) else None
        for j in range(0, ls + 1):
            if j == 0:
                nums = ["-0", "00"] if ls == 2 else ["-00", "000", " -0"]
            elif ls == 2:
                nums = [f"-{j}"]
            else:
                nums = [f"-0{j}", f" -{j}"]
            if j > 0:
                # the first j bytes after the numeral are overwritten: the next element must tolerate it
                if nxt is None or nxt["type"] != "FIXED" or nxt.get("ptype") not in (None, "string") \
                        or nxt.get("proc") or (nxt["data"][1] - nxt["data"][0]) < j:
                    continue
            for num in nums:
                nb = enc_text(num, enc)
                new_tail = nb + msg[end + j:]
                yield [rep(a, len(msg) - a, new_tail, "splice_negative" if j else "splice_zero_length")]
        # lengths pointing at / past the end
        remaining = len(msg) - b
        for tgt, cls in ((remaining, "splice_swallow_to_end"), (remaining + 1, "splice_past_end")):
            if tgt < 10 ** ls:
                yield [rep(a, ls, enc_text(f"{tgt:0{ls}d}", enc), cls)]


def _bitmap_fault(msg, spans, hex_bitmap, bits):
    bm = bytearray(16)
    for bit in bits:
        bm[(bit - 1) // 8] |= 0x80 >> ((bit - 1) % 8)
    a, b = spans["bitmap"]
    data = bytes(bm).hex().encode("ascii") if hex_bitmap else bytes(bm)
    return rep(a, b - a, data, "bitmap_rewrite")


def consistent_edits(msg: bytes, spans, enc, cfg, hex_bitmap, rng):
    """edits that keep the message well-framed (completeness side): zero-length variable field,
    grown / shrunk variable text, element removed together with its bit, element added with its bit"""
    elems = spans["elems"]
    bits = [1] + [e["bit"] for e in elems]
    out = []
    var = [e for e in elems if e["prefix"] and not e.get("proc") and e.get("ptype") in (None, "string")]
    for el in var[:6]:
        a, b = el["prefix"]
        ls = b - a
        d0, d1 = el["data"]
        # zero-length value
        out.append([rep(a, d1 - a, enc_text("0" * ls, enc), "edit_zero_length_var")])
        # grown by k characters
        k = rng.choice([1, 2, 7])
        cur = d1 - d0
        if cur + k < 10 ** ls:
            out.append([rep(a, d1 - a, enc_text(f"{cur + k:0{ls}d}", enc) + msg[d0:d1] + enc_text("x" * k, enc), "edit_grow_var")])
        if cur > 1:
            out.append([rep(a, d1 - a, enc_text(f"{cur - 1:0{ls}d}", enc) + msg[d0:d1 - 1], "edit_shrink_var")])
    # remove one element together with its bit (apply the data edit first: higher offset)
    if len(elems) >= 2:
        el = rng.choice(elems)
        start = el["prefix"][0] if el["prefix"] else el["data"][0]
        nb = [x for x in bits if x != el["bit"]]
        out.append([{"kind": "delete", "off": start, "n": el["data"][1] - start, "cls": "edit_remove_element"},
                    _bitmap_fault(msg, spans, hex_bitmap, nb)])
    # add a fixed text element (with its bit) that is configured but absent
    present = set(bits)
    cands = [int(k) for k, c in cfg.items() if 2 <= int(k) <= 127 and int(k) not in present
             and c["field_type"] == "FIXED" and c.get("field_python_type") in (None, "string")
             and not c.get("field_processor")]
    if cands:
        nbit = rng.choice(sorted(cands))
        w = cfg[str(nbit)]["field_length"]
        # insertion point: before the first element with a higher bit
        pos = len(msg)
        for e in elems:
            if e["bit"] > nbit:
                pos = e["prefix"][0] if e["prefix"] else e["data"][0]
                break
        out.append([{"kind": "insert", "off": pos, "hex": enc_text("Q" * w, enc).hex(), "cls": "edit_add_element"},
                    _bitmap_fault(msg, spans, hex_bitmap, sorted(present | {nbit}))])
    return out


def random_faults(rng, length, nmax=3):
    """1..nmax seeded faults from {substitute, flip, insert, delete, truncate, extend}"""
    out = []
    for _ in range(rng.randint(1, nmax)):
        k = rng.choice(["substitute", "substitute", "flip", "flip", "insert", "delete", "truncate", "extend"])
        off = rng.randint(0, max(0, length - 1))
        if k == "substitute":
            out.append({"kind": k, "off": off, "val": rng.randint(0, 255), "cls": "rnd_substitute"})
        elif k == "flip":
            out.append({"kind": k, "off": off, "bit": rng.randint(0, 7), "cls": "rnd_flip"})
        elif k == "insert":
            out.append({"kind": k, "off": off, "hex": rng.randbytes(rng.randint(1, 4)).hex(), "cls": "rnd_insert"})
        elif k == "delete":
            out.append({"kind": k, "off": off, "n": rng.randint(1, 4), "cls": "rnd_delete"})
        elif k == "truncate":
            out.append({"kind": k, "at": off, "cls": "rnd_truncate"})
        else:
            out.append({"kind": k, "hex": rng.randbytes(rng.randint(1, 6)).hex(), "cls": "rnd_extend"})
    return out


def fault_class(faults):
    return "+".join(f.get("cls", f["kind"]) for f in faults) if faults else "none"
