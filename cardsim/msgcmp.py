"""Round-trip comparison of an original message dict with the decoded one (C06 control-arm oracle).

Every original key must be present with an equal value (masked form / 9-character prefix where the
configuration says so); extra keys may only come from the documented derived families."""
import re

_TAG = re.compile(r"^TAG[0-9A-F]+$")


def expected_value(key, value, cfg):
    if key.startswith("DE") and key[2:].isdigit():
        c = cfg.get(key[2:], {})
        proc = c.get("field_processor")
        if proc == "PAN" and isinstance(value, str):
            return value[0:6] + "*" * (len(value) - 10) + value[-4:]
        if proc == "PAN-PREFIX" and isinstance(value, str):
            return value[:9]
    return value


def compare_messages(original: dict, decoded, cfg) -> list:
    """returns a list of human-readable differences (empty = equal)"""
    diffs = []
    if not isinstance(decoded, dict):
        return [f"decoded value is {type(decoded).__name__}, not dict"]
    pds_bits = {b for b, c in cfg.items() if c.get("field_processor") == "PDS"}
    icc_bits = {b for b, c in cfg.items() if c.get("field_processor") == "ICC"}
    de43_bits = {b for b, c in cfg.items() if c.get("field_processor") == "DE43"}
    for k, v in original.items():
        if k not in decoded:
            diffs.append(f"{k} missing from the decoded message")
            continue
        want = expected_value(k, v, cfg)
        got = decoded[k]
        if type(want) is not type(got) and not (isinstance(want, (int,)) and isinstance(got, int)):
            # Decimal vs Decimal, datetime vs datetime, str vs str, bytes vs bytes
            if not (hasattr(want, "as_tuple") and hasattr(got, "as_tuple")):
                diffs.append(f"{k}: type {type(got).__name__} != {type(want).__name__}")
                continue
        if got != want:
            diffs.append(f"{k}: {got!r:.60} != {want!r:.60}")
    has_pds = any(k.startswith("PDS") for k in original)
    has_icc = any(k in original for k in (f"DE{b}" for b in icc_bits))
    has_43 = any(k in original for k in (f"DE{b}" for b in de43_bits))
    for k in decoded:
        if k in original:
            continue
        if k.startswith("DE43_") and has_43:
            continue
        if (k == "ICC_DATA" or _TAG.match(k)) and has_icc:
            continue
        if k.startswith("DE") and k[2:] in pds_bits and has_pds:
            continue
        diffs.append(f"unexpected extra key {k} = {decoded[k]!r:.40}")
    return diffs
