"""Seeded workload generators for the framing layers (record lists, write chunkings, read sizes).

Everything is drawn from the PRNG passed in; nothing else is consulted."""

KNOB_MAX = [1, 50, 1012, 6000, 10000, 70000]
KNOB_MAX_WEIGHTS = [1, 2, 3, 10, 3, 1]


def pick_knob(rng):
    return rng.choices(KNOB_MAX, KNOB_MAX_WEIGHTS)[0]


def gen_len(rng, maxlen):
    """boundary-biased record length in 1..maxlen"""
    r = rng.random()
    if r < 0.10:
        v = rng.choice([1, 2, 3, 4, 5])
    elif r < 0.40:
        v = rng.randint(1000, 1020)        # around one payload (1012) and 1008 = 1012 - 4
    elif r < 0.50:
        v = rng.randint(2016, 2030)        # around two payloads
    elif r < 0.58:
        v = rng.choice([maxlen, maxlen - 1, maxlen - 2])
    elif r < 0.62 and maxlen >= 65537:
        v = rng.choice([65535, 65536, 65537])
    elif r < 0.75:
        v = rng.randint(1, 64)
    elif r < 0.90:
        v = rng.randint(1, min(maxlen, 1500))
    else:
        v = rng.randint(1, maxlen)
    return max(1, min(maxlen, v))


def gen_content(rng, n, pos_base):
    """byte spec of n bytes: position code, random, runs of 0x00 / 0x40, things that look like framing"""
    r = rng.random()
    if r < 0.45:
        return {"pos": [pos_base, n]}
    if r < 0.60:
        return {"rnd": [rng.getrandbits(32), n]}
    if r < 0.70:
        return {"fill": [0x00, n]}
    if r < 0.80:
        return {"fill": [0x40, n]}
    if r < 0.90 and n >= 8:
        # content that looks like a terminator / a length prefix in the middle of a record
        k = rng.randint(0, n - 8)
        fake = rng.choice(["00000000", "00000001", "00000004", "000003f4", "40404040", "00001770"])
        return {"cat": [{"pos": [pos_base, k]}, {"hex": fake + fake}, {"pos": [pos_base + k + 8, n - k - 8]}]}
    return {"fill": [rng.choice([0x00, 0x40, 0xFF, 0x0A]), n]}


def gen_records(rng, maxlen, nmax):
    n = rng.choice([1, 1, 2, 2, 3]) if rng.random() < 0.4 else rng.randint(1, nmax)
    recs = []
    base = 0
    for _ in range(n):
        ln = gen_len(rng, maxlen)
        recs.append(gen_content(rng, ln, base))
        base += ln
    return recs


def gen_write_lens(rng, nmax=30):
    """write-call lengths for the blocker: boundary biased, includes 0 and multi-block writes"""
    out = []
    for _ in range(rng.randint(1, nmax)):
        r = rng.random()
        if r < 0.08:
            v = 0
        elif r < 0.30:
            v = rng.randint(1, 8)
        elif r < 0.55:
            v = rng.randint(1004, 1020)
        elif r < 0.65:
            v = rng.randint(2020, 2030)
        elif r < 0.72:
            v = 1012 * rng.randint(1, 6) + rng.choice([-1, 0, 0, 1])
        elif r < 0.90:
            v = rng.randint(1, 1100)
        elif r < 0.98:
            v = rng.randint(1, 6100)
        else:
            v = rng.randint(6100, 14000)
        out.append(v)
    return out


def gen_read_sizes(rng, nmax=40):
    """read sizes for the unblocker: ints, or None for 'no size'"""
    out = []
    for _ in range(rng.randint(1, nmax)):
        r = rng.random()
        if r < 0.05:
            v = None
        elif r < 0.25:
            v = rng.choice([1, 2, 3, 4, 4, 4])
        elif r < 0.50:
            v = rng.randint(1006, 1018)
        elif r < 0.60:
            v = rng.randint(2020, 2028)
        elif r < 0.90:
            v = rng.randint(1, 1100)
        elif r < 0.97:
            v = rng.randint(1, 5000)
        else:
            v = 1012 * rng.randint(3, 9) + rng.choice([-1, 0, 0, 1, 2])
        out.append(v)
    return out
