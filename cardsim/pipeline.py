"""`vbs_pipeline` scenarios: a writer actor (VbsWriter / IpmWriter, optionally 1014-blocked) on a
storage seam, an optional crash / truncation, a restart, and a fresh reader actor on the
surviving image.  Used by C03 (no fault), C09 (crash points) and C11 (finalisation histories).
"""
import copy
import io
import os
import shutil
import tempfile

from . import sut
from .kernel import mk_bytes, EventLog, bsum
from .simfs import SimFile, SimPipe, SimCrash
from . import msgcodec


# ---------------------------------------------------------------------------------------------
# scenario helpers
# ---------------------------------------------------------------------------------------------

def default_ops(n, api="write"):
    if api == "write":
        return [f"write:{i}" for i in range(n)] + ["close"]
    if api == "write_many":
        return [f"write_many:0:{n}", "close"]
    if api == "ctx":
        return ["enter"] + [f"write:{i}" for i in range(n)] + ["exit"]
    if api == "ctx_many":
        return ["enter", f"write_many:0:{n}", "exit"]
    raise ValueError(api)


def scenario_items(scn):
    """the python objects handed to the writer: bytes (vbs) or dicts (ipm)"""
    if scn["level"] == "vbs":
        return [mk_bytes(s) for s in scn["records"]]
    return [msgcodec.msg_from_json(m) for m in scn["messages"]]


def asked_records(scn, items=None):
    """raw record bytes the writer is asked to put into the file"""
    if items is None:
        items = scenario_items(scn)
    if scn["level"] == "vbs":
        return items
    m = sut.load()
    cfg = msgcodec.cfg_from_json(scn.get("config", "packaged"))
    return [m["iso8583"].dumps(copy.deepcopy(x), encoding=scn.get("encoding"), iso_config=cfg)
            for x in items]


REALFILE_MODES = {"realfile": "wb", "realfile+": "w+b", "realfile_ab": "ab", "realfile_a+b": "a+b", "realfile_xb": "xb"}


class Storage:
    """storage kinds: sim (SimFile, faults possible), bytesio (stdlib), realfile / realfile+ (OS file)"""

    def __init__(self, kind, crash_at=None, log=None):
        self.kind = kind
        self.dir = None
        if kind == "sim":
            self.f = SimFile(crash_at=crash_at, log=log, name="disk")
        elif kind == "bytesio":
            self.f = io.BytesIO()
        elif kind in REALFILE_MODES:
            self.dir = tempfile.mkdtemp(prefix="cardsim-")
            self.path = os.path.join(self.dir, "out.bin")
            self.f = open(self.path, REALFILE_MODES[kind])
        else:
            raise ValueError(kind)

    def image(self) -> bytes:
        if self.kind in ("sim", "bytesio"):
            return self.f.getvalue()
        self.f.flush()
        with open(self.path, "rb") as g:
            return g.read()

    def dispose(self):
        if self.dir:
            try:
                self.f.close()
            except Exception:
                pass
            shutil.rmtree(self.dir, ignore_errors=True)


# ---------------------------------------------------------------------------------------------
# writer phase
# ---------------------------------------------------------------------------------------------

class WriteResult:
    __slots__ = ("image", "snapshots", "error", "crashed", "nonprefix", "io_ops", "fin_errors")

    def __init__(self):
        self.image = b""
        self.snapshots = []      # image after each finalisation op
        self.error = None        # (type name, text) of a non-crash exception out of a writer op
        self.crashed = False
        self.nonprefix = 0
        self.io_ops = 0
        self.fin_errors = []


HANGS = {"n": 0, "active": False}   # non-terminations seen by this worker; after three, phases are no longer
# executed there (only inside pool workers: confirmation / minimisation / replay always execute)


def write_phase(scn, crash_at=None, log=None, items=None) -> WriteResult:
    from .steps import WallLimit, StepBudgetExceeded
    if HANGS["active"] and HANGS["n"] >= 3:
        r = WriteResult()
        r.error = ("DidNotTerminate", "not executed: three earlier runs in this process did not terminate")
        return r
    try:
        with WallLimit(20.0):
            return _write_phase(scn, crash_at, log, items)
    except StepBudgetExceeded as ex:
        HANGS["n"] += 1
        r = WriteResult()
        r.error = ("DidNotTerminate", str(ex)[:200])
        return r


def _write_phase(scn, crash_at=None, log=None, items=None) -> WriteResult:
    m = sut.load()
    res = WriteResult()
    if items is None:
        items = scenario_items(scn)
    blocked = scn["blocked"]
    ops = None
    if scn.get("api") != "func":
        ops = scn.get("writer_ops") or default_ops(len(items), scn.get("api", "write"))
    knobs = scn.get("knobs", {})
    with sut.knob(knobs.get("MAX_VBS_RECORD_LENGTH")):
        if scn.get("api") == "func":
            # convenience function: no file seam to own, fault-free only
            if scn["level"] != "vbs":
                raise ValueError("func api is vbs level only")
            try:
                if not blocked and scn.get("omit_kwargs"):
                    res.image = m["mciipm"].vbs_list_to_bytes(items)          # default call, no options given
                else:
                    res.image = m["mciipm"].vbs_list_to_bytes(items, blocked=blocked)
            except Exception as ex:
                res.error = (type(ex).__name__, str(ex)[:200])
                return res
            res.snapshots.append(res.image)
            return res
        st = Storage(scn.get("storage", "sim"), crash_at=crash_at, log=log)
        try:
            if scn["level"] == "vbs":
                if not blocked and scn.get("omit_kwargs"):
                    w = m["mciipm"].VbsWriter(st.f)
                else:
                    w = m["mciipm"].VbsWriter(st.f, blocked=blocked)
            else:
                cfg = msgcodec.cfg_from_json(scn.get("config", "packaged"))
                w = m["mciipm"].IpmWriter(st.f, encoding=scn.get("encoding"), iso_config=cfg, blocked=blocked)
            entered = exited = False
            try:
                for op in ops:
                    if log is not None:
                        log.emit("writer", op)
                    if op == "enter":
                        w.__enter__()
                        entered = True
                    elif op.startswith("write:"):
                        i = int(op.split(":")[1])
                        w.write(copy.deepcopy(items[i]) if scn["level"] == "ipm" else items[i])
                    elif op.startswith("write_many:"):
                        _, a, b = op.split(":")
                        part = items[int(a):int(b)]
                        w.write_many(copy.deepcopy(part) if scn["level"] == "ipm" else part)
                    elif op.startswith("crowd:"):
                        # K other writers on their own files are created, written and finalised now
                        for j in range(int(op.split(":")[1])):
                            g = io.BytesIO()
                            if scn["level"] == "vbs":
                                o = m["mciipm"].VbsWriter(g, blocked=blocked)
                                o.write(b"other writer %d" % j)
                            else:
                                o = m["mciipm"].IpmWriter(g, encoding=scn.get("encoding"), iso_config=cfg, blocked=blocked)
                                o.write({"MTI": "1240", "DE2": "%016d" % j})
                            o.close()
                    elif op in ("close", "exit", "exit!", "exit!!"):
                        try:
                            if op == "close":
                                w.close()
                            elif op == "exit":
                                exited = True
                                w.__exit__(None, None, None)
                            elif op == "exit!":
                                # the with-body raised: the context manager is left with an exception in flight
                                exited = True
                                err = ValueError("application error inside the with block")
                                w.__exit__(ValueError, err, None)
                            else:
                                # ... an exception that is not an Exception subclass (generator closed,
                                # Ctrl-C, task cancelled)
                                exited = True
                                w.__exit__(GeneratorExit, GeneratorExit(), None)
                        except SimCrash:
                            raise
                        except Exception as ex:  # finalisation must not raise (C11)
                            res.fin_errors.append((op, type(ex).__name__, str(ex)[:200]))
                        res.snapshots.append(st.image())
                    else:
                        raise ValueError(f"bad writer op {op}")
            except SimCrash as crash:
                res.crashed = True
                if entered and not exited:
                    # a `with` block would now run __exit__ while the crash propagates; a dead
                    # process must not get anything more onto the disk
                    try:
                        w.__exit__(SimCrash, crash, None)
                    except SimCrash:
                        pass
            except Exception as ex:
                res.error = (type(ex).__name__, str(ex)[:200])
            res.image = st.image()
            if st.kind == "sim":
                res.nonprefix = st.f.nonprefix_events
                res.io_ops = st.f.n_ops
        finally:
            st.dispose()
    return res


# ---------------------------------------------------------------------------------------------
# reader phase (after the "restart": only the image survives)
# ---------------------------------------------------------------------------------------------

class ReadResult:
    __slots__ = ("items", "end", "err_recno", "err_ctx", "err_text", "io_ops")

    def __init__(self):
        self.items = []
        self.end = None       # 'stop' | 'MciIpmDataError' | 'foreign:<Type>'
        self.err_recno = None
        self.err_ctx = None
        self.err_text = None
        self.io_ops = 0

    def summary(self):
        return {"n": len(self.items), "end": self.end, "recno": self.err_recno,
                "ctx": bsum(self.err_ctx) if self.err_ctx is not None else None}


def read_phase(scn, image, log=None, storage="sim", limit=None) -> ReadResult:
    from .steps import WallLimit, StepBudgetExceeded
    if HANGS["active"] and HANGS["n"] >= 3:
        r = ReadResult()
        r.end, r.err_text = "foreign:DidNotTerminate", "not executed: three earlier runs in this process did not terminate"
        return r
    try:
        with WallLimit(20.0):
            return _read_phase(scn, image, log, storage, limit)
    except StepBudgetExceeded as ex:
        HANGS["n"] += 1
        r = ReadResult()
        r.end, r.err_text = "foreign:DidNotTerminate", str(ex)[:200]
        return r


def _read_phase(scn, image, log=None, storage="sim", limit=None) -> ReadResult:
    m = sut.load()
    res = ReadResult()
    blocked = scn["blocked"]
    knobs = scn.get("knobs", {})
    with sut.knob(knobs.get("MAX_VBS_RECORD_LENGTH")):
        if scn.get("reader") == "func" and scn["level"] == "vbs":
            try:
                if not blocked and scn.get("omit_kwargs"):
                    res.items = m["mciipm"].vbs_bytes_to_list(image)           # default call, no options given
                else:
                    res.items = m["mciipm"].vbs_bytes_to_list(image, blocked=blocked)
                res.end = "stop"
            except m["MciIpmDataError"] as ex:
                res.end = "MciIpmDataError"
                res.err_recno = ex.record_number
                res.err_ctx = ex.binary_context_data
                res.err_text = str(ex)[:200]
                res.items = None  # the list function cannot hand over what it read before the error
            except Exception as ex:
                res.end = "foreign:" + type(ex).__name__
                res.err_text = str(ex)[:200]
                res.items = None
            return res
        if storage == "pipe":
            f = SimPipe(image, log=log, name="pipe")
        else:
            f = SimFile(image, log=log, name="disk") if storage == "sim" else io.BytesIO(image)
        if scn["level"] == "vbs":
            if not blocked and scn.get("omit_kwargs"):
                r = m["mciipm"].VbsReader(f)
            else:
                r = m["mciipm"].VbsReader(f, blocked=blocked)
        else:
            cfg = msgcodec.cfg_from_json(scn.get("config", "packaged"))
            r = m["mciipm"].IpmReader(f, encoding=scn.get("encoding"), iso_config=cfg, blocked=blocked)
        it = iter(r)
        cap = limit if limit is not None else 100000
        while True:
            if log is not None:
                log.emit("reader", "next")
            try:
                x = next(it)
            except StopIteration:
                res.end = "stop"
                break
            except m["MciIpmDataError"] as ex:
                res.end = "MciIpmDataError"
                res.err_recno = ex.record_number
                res.err_ctx = ex.binary_context_data
                res.err_text = str(ex)[:200]
                break
            except Exception as ex:
                res.end = "foreign:" + type(ex).__name__
                res.err_text = str(ex)[:200]
                break
            res.items.append(x)
            if len(res.items) > cap:
                res.end = "foreign:Unbounded"
                break
        if storage in ("sim", "pipe"):
            res.io_ops = f.n_ops
    return res
