"""Reference models for the framing layers, written from the module documentation of
cardutil/mciipm.py (VBS: 4-byte big-endian length + data, zero length terminates; 1014 blocking:
1012 payload bytes + two 0x40 per block, last block filled with 0x40).  Shares no code with cardutil.
"""

PAD = 0x40
PAYLOAD = 1012
BLOCK = 1014


# ---- VBS ------------------------------------------------------------------------------------

def vbs_layout(records) -> bytes:
    out = bytearray()
    for r in records:
        out += len(r).to_bytes(4, "big") + r
    out += b"\x00\x00\x00\x00"
    return bytes(out)


def vbs_spans(records):
    """[(prefix_start, data_start, data_end)] for each record, and terminator start"""
    spans = []
    p = 0
    for r in records:
        spans.append((p, p + 4, p + 4 + len(r)))
        p += 4 + len(r)
    return spans, p


def vbs_parse(stream: bytes, maxlen: int):
    """Records wholly contained in `stream`, and how the stream ends.

    Returns (records, tail) with tail in
      'terminated'  zero length seen
      'boundary'    stream ends exactly where a length field would start
      'in_length'   1..3 bytes of a length field
      'in_data'     full length field, data cut short
      'oversize'    a length field above maxlen
    """
    recs = []
    p = 0
    n = len(stream)
    while True:
        if p == n:
            return recs, "boundary"
        if n - p < 4:
            return recs, "in_length"
        ln = int.from_bytes(stream[p:p + 4], "big")
        if ln == 0:
            return recs, "terminated"
        if ln > maxlen:
            return recs, "oversize"
        if n - (p + 4) < ln:
            return recs, "in_data"
        recs.append(stream[p + 4:p + 4 + ln])
        p += 4 + ln


# ---- 1014 blocking ------------------------------------------------------------------------------

def block(data: bytes) -> bytes:
    """one-shot reference blocker (no fill-only block; empty data -> empty file)"""
    out = bytearray()
    for i in range(0, len(data), PAYLOAD):
        chunk = data[i:i + PAYLOAD]
        out += chunk + bytes([PAD]) * (PAYLOAD - len(chunk)) + bytes([PAD, PAD])
    return bytes(out)


def payload(image: bytes) -> bytes:
    """payload stream of a (possibly truncated) blocked image: first 1012 bytes of every 1014 slice"""
    out = bytearray()
    for i in range(0, len(image), BLOCK):
        out += image[i:i + BLOCK][:PAYLOAD]
    return bytes(out)


def check_blocked_shape(image: bytes, data: bytes):
    """C04 oracle on a finalised image.  Returns None if fine, else a short reason string."""
    if len(image) % BLOCK != 0:
        return f"length {len(image)} not a multiple of 1014"
    nblocks = len(image) // BLOCK
    for b in range(nblocks):
        if image[b * BLOCK + PAYLOAD:(b + 1) * BLOCK] != bytes([PAD, PAD]):
            return f"block {b} trailer is not 40 40"
    pl = payload(image)
    if pl[:len(data)] != data:
        # locate first difference
        m = min(len(pl), len(data))
        d = next((i for i in range(m) if pl[i] != data[i]), m)
        return f"payload differs from data at payload offset {d}"
    if any(c != PAD for c in pl[len(data):]):
        return "bytes after the data are not all 0x40 fill"
    need = -(-len(data) // PAYLOAD)
    if nblocks not in (need, need + 1):
        return f"{nblocks} blocks for {len(data)} bytes (expected {need} or {need + 1})"
    return None


def file_to_payload_offset(off: int) -> int:
    b, r = divmod(off, BLOCK)
    return b * PAYLOAD + min(r, PAYLOAD)
