"""Deterministic step budget: bounded liveness without a wall clock.

Counts `line` trace events in frames whose code lives under the cardutil package and raises
StepBudgetExceeded (a BaseException, so no `except Exception` swallows it) when the limit is
passed.  The count is a function of code and input only, so a hang is a replayable verdict."""
import os
import sys

from . import sut


class StepBudgetExceeded(BaseException):
    def __init__(self, where):
        super().__init__(f"step budget exceeded at {where}")
        self.where = where


class Budget:
    def __init__(self, limit: int):
        self.limit = limit
        self.steps = 0
        self.prefix = os.path.join(os.path.realpath(sut.REPO), "cardutil") + os.sep
        self._prev = None
        self._known = {}

    def _global(self, frame, event, arg):
        fn = frame.f_code.co_filename
        k = self._known.get(fn)
        if k is None:
            rp = os.path.realpath(fn)
            # the vendored hexdump helper (called eagerly for debug logging on every decode) is a
            # straight-line formatter; leaving it untraced makes traced decodes ~3x cheaper
            k = self._known[fn] = rp.startswith(self.prefix) and not rp.startswith(self.prefix + "vendor" + os.sep)
        return self._local if k else None

    def _local(self, frame, event, arg):
        if event == "line":
            self.steps += 1
            if self.steps > self.limit:
                sys.settrace(None)
                raise StepBudgetExceeded(f"{frame.f_code.co_name}:{frame.f_lineno}")
        return self._local

    def __enter__(self):
        self._prev = sys.gettrace()
        sys.settrace(self._global)
        return self

    def __exit__(self, *a):
        sys.settrace(self._prev)
        return False


def budget_for(nbytes: int) -> int:
    # measured: a legitimate decode costs at most ~3 traced lines per input byte (carriers full of
    # zero-length PDS sub-elements and 2-byte TLVs; the vendored hexdump helper is not traced);
    # 100 lines per byte + 20000 leaves > 30x headroom for a slower but correct refactor
    return 20_000 + 100 * nbytes
