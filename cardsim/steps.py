"""Deterministic step budget: bounded liveness without a wall clock.

Counts `line` trace events in frames whose code lives under the cardutil package and raises
StepBudgetExceeded (a BaseException, so no `except Exception` swallows it) when the limit is
passed.  The count is a function of code and input only, so a hang is a replayable verdict."""
import os
import signal
import sys
import threading

from . import sut


class StepBudgetExceeded(BaseException):
    def __init__(self, where):
        super().__init__(f"step budget exceeded at {where}")
        self.where = where


WALL_S = 10.0   # per consumer run; ordinary runs take milliseconds


class Budget:
    """line-step budget, plus a generous wall-clock limit for time spent inside C code (a regular
    expression that backtracks for ever executes no Python line; the sre engine does honour signals)"""

    def __init__(self, limit: int, wall_s: float = WALL_S):
        self.limit = limit
        self.wall_s = wall_s
        self._old_handler = None
        self.steps = 0
        self.prefix = os.path.join(os.path.realpath(sut.REPO), "cardutil") + os.sep
        self._prev = None
        self._known = {}

    def _global(self, frame, event, arg):
        fn = frame.f_code.co_filename
        k = self._known.get(fn)
        if k is None:
            rp = os.path.realpath(fn)
            # the vendored hexdump helper (called eagerly for debug logging on every decode) is a
            # straight-line formatter; leaving it untraced makes traced decodes ~3x cheaper
            k = self._known[fn] = rp.startswith(self.prefix) and not rp.startswith(self.prefix + "vendor" + os.sep)
        return self._local if k else None

    def _local(self, frame, event, arg):
        if event == "line":
            self.steps += 1
            if self.steps > self.limit:
                sys.settrace(None)
                raise StepBudgetExceeded(f"{frame.f_code.co_name}:{frame.f_lineno}")
        return self._local

    def _on_alarm(self, signum, frame):
        sys.settrace(None)
        where = f"{frame.f_code.co_name}:{frame.f_lineno}" if frame is not None else "?"
        raise StepBudgetExceeded(f"{where} (wall clock: {self.wall_s:.0f}s without finishing, time spent inside C code)")

    def __enter__(self):
        self._prev = sys.gettrace()
        if self.wall_s and threading.current_thread() is threading.main_thread():
            self._old_handler = signal.signal(signal.SIGALRM, self._on_alarm)
            signal.setitimer(signal.ITIMER_REAL, self.wall_s)
        sys.settrace(self._global)
        return self

    def __exit__(self, *a):
        sys.settrace(self._prev)
        if self._old_handler is not None:
            signal.setitimer(signal.ITIMER_REAL, 0)
            signal.signal(signal.SIGALRM, self._old_handler)
            self._old_handler = None
        return False


def budget_for(nbytes: int) -> int:
    # measured: a legitimate decode costs at most ~3 traced lines per input byte (carriers full of
    # zero-length PDS sub-elements and 2-byte TLVs; the vendored hexdump helper is not traced);
    # 100 lines per byte + 20000 leaves > 30x headroom for a slower but correct refactor
    return 20_000 + 100 * nbytes


class WallLimit:
    """wall-clock backstop only (no tracing) for code paths that have no step budget: raises
    StepBudgetExceeded in the main thread when the block does not finish in time"""

    def __init__(self, seconds: float = 20.0):
        self.seconds = seconds
        self._old = None

    def _on_alarm(self, signum, frame):
        where = f"{frame.f_code.co_name}:{frame.f_lineno}" if frame is not None else "?"
        raise StepBudgetExceeded(f"{where} (wall clock: {self.seconds:.0f}s without finishing)")

    def __enter__(self):
        if threading.current_thread() is threading.main_thread():
            self._old = signal.signal(signal.SIGALRM, self._on_alarm)
            signal.setitimer(signal.ITIMER_REAL, self.seconds)
        return self

    def __exit__(self, *a):
        if self._old is not None:
            signal.setitimer(signal.ITIMER_REAL, 0)
            signal.signal(signal.SIGALRM, self._old)
            self._old = None
        return False


HANGS = {"n": 0, "active": False}
"""non-terminations seen by this pool worker.  After three, executors stop executing further cases there and
report them as 'not executed' (the violations already recorded stand; a worker must not burn a full
wall-clock limit for each of thousands of remaining cases).  Never active outside pool workers."""


def hang_seen():
    HANGS["n"] += 1


def too_many_hangs():
    return HANGS["active"] and HANGS["n"] >= 3
