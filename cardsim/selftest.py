"""Self-tests of the machinery.

./check selftest sensitivity [--only <substring>] [--prop Cnn] [--suite] [--jobs N]
    for every catalogue mutant: scratch copy of /repo/cardutil (+tests), apply the edit, run the
    property's quick check with CARDSIM_REPO pointing at the copy, require VIOLATION (exit 1) for
    mutants and exit 0 for negative controls, replay the produced file in a fresh process, delete
    the copy.  --suite also runs the repository's test suite against the copy.
./check selftest determinism [--n N] [--prop Cnn]
    per property: N seeds, digest twice in process, once in a fresh interpreter with another
    PYTHONHASHSEED, once with another worker count; all must agree.
"""
import concurrent.futures
import json
import os
import shutil
import subprocess
import sys
import tempfile
import time

VERIF = os.path.dirname(os.path.dirname(os.path.abspath(__file__)))


def _apply(root, m):
    for file, old, new in [(m["file"], m["old"], m["new"])] + [tuple(x) for x in m.get("more", [])]:
        path = os.path.join(root, file)
        with open(path) as f:
            s = f.read()
        if s.count(old) != 1:
            return f"pattern occurs {s.count(old)} times in {file}: {old[:60]!r}"
        with open(path, "w") as f:
            f.write(s.replace(old, new))
    return None


def run_mutant(m, suite=False, workers=None, tier="quick"):
    t0 = time.time()
    tmp = tempfile.mkdtemp(prefix="cardsim-mut-")
    res = {"id": m["id"], "property": m["property"], "expect": m["expect"], "note": m.get("note", "")}
    try:
        shutil.copytree("/repo/cardutil", os.path.join(tmp, "cardutil"),
                        ignore=shutil.ignore_patterns("__pycache__"))
        err = _apply(tmp, m)
        if err:
            res.update(status="STALE", detail=err)
            return res
        if suite:
            shutil.copytree("/repo/tests", os.path.join(tmp, "tests"), ignore=shutil.ignore_patterns("__pycache__"))
            for extra in ("setup.cfg", "pytest.ini", "tox.ini", "pyproject.toml", "setup.py"):
                if os.path.exists(os.path.join("/repo", extra)):
                    shutil.copy(os.path.join("/repo", extra), tmp)
            env = dict(os.environ, PYTHONPATH=tmp, PYTHONDONTWRITEBYTECODE="1")
            r = subprocess.run([sys.executable, "-m", "pytest", "-q", "-x", "-p", "no:cacheprovider", "tests"],
                               cwd=tmp, env=env, capture_output=True, text=True, timeout=900)
            res["suite_exit"] = r.returncode
            res["suite_tail"] = r.stdout.strip().splitlines()[-1] if r.stdout.strip() else ""
        out = os.path.join(tmp, "out")
        os.makedirs(out)
        env = dict(os.environ, CARDSIM_REPO=tmp, CARDSIM_OUT=out)
        if workers:
            env["VERIF_WORKERS"] = str(workers)
        r = subprocess.run([os.path.join(VERIF, "check"), m["property"], "--tier", tier],
                           env=env, capture_output=True, text=True, timeout=3600)
        res["exit"] = r.returncode
        vio = [l for l in r.stdout.splitlines() if l.startswith("VIOLATION")]
        res["violations"] = vio[:3]
        res["oracles"] = [l.strip() for l in r.stdout.splitlines() if l.strip().startswith("oracle ")][:3]
        if m["expect"] == "violation":
            ok = r.returncode == 1 and bool(vio)
            if ok:
                # replay the produced file in a fresh process against the mutated copy
                path = vio[0].split("replay=")[1].strip()
                rr = subprocess.run([os.path.join(VERIF, "check"), "replay", path],
                                    env=env, capture_output=True, text=True, timeout=600)
                res["replay_exit"] = rr.returncode
                ok = rr.returncode == 1
                # and against the unchanged tree it must NOT reproduce
                env2 = dict(os.environ, CARDSIM_OUT=out)
                env2.pop("CARDSIM_REPO", None)
                r2 = subprocess.run([os.path.join(VERIF, "check"), "replay", path],
                                    env=env2, capture_output=True, text=True, timeout=600)
                res["replay_on_clean_exit"] = r2.returncode
                ok = ok and r2.returncode == 0
                try:
                    with open(path) as f:
                        res["minimised_scenario"] = json.load(f)["scenario"]
                except Exception:
                    pass
        else:
            ok = r.returncode == 0 and not vio
        res["status"] = "PASS" if ok else "FAIL"
        if not ok:
            res["tail"] = (r.stdout[-1500:] + r.stderr[-800:])
    except Exception as e:  # noqa
        res.update(status="ERROR", detail=repr(e))
    finally:
        shutil.rmtree(tmp, ignore_errors=True)
    res["wall_s"] = round(time.time() - t0, 1)
    return res


def sensitivity(argv):
    from . import mutants
    only = argv[argv.index("--only") + 1] if "--only" in argv else None
    prop = argv[argv.index("--prop") + 1] if "--prop" in argv else None
    jobs = int(argv[argv.index("--jobs") + 1]) if "--jobs" in argv else 4
    suite = "--suite" in argv
    sel = [m for m in mutants.M if (not only or only in m["id"]) and (not prop or m["property"] == prop)]
    workers = max(2, 16 // jobs)
    results = []
    with concurrent.futures.ThreadPoolExecutor(max_workers=jobs) as ex:
        futs = [ex.submit(run_mutant, m, suite, workers) for m in sel]
        for f in futs:
            r = f.result()
            results.append(r)
            extra = f" suite_exit={r.get('suite_exit')}" if suite else ""
            print(f"{r['status']:5} {r['id']:45} prop={r['property']} expect={r['expect']} exit={r.get('exit')}"
                  f"{extra} {r.get('wall_s')}s {(r.get('oracles') or [''])[0][:110]}")
            if r["status"] != "PASS":
                print("      " + str(r.get("detail") or r.get("tail", ""))[-1200:].replace("\n", "\n      "))
            sys.stdout.flush()
    os.makedirs(os.path.join(VERIF, "selftest"), exist_ok=True)
    if not only and not prop:
        with open(os.path.join(VERIF, "selftest", "sensitivity.json"), "w") as f:
            json.dump(results, f, indent=1)
            f.write("\n")
    bad = [r for r in results if r["status"] != "PASS"]
    print(f"sensitivity: {len(results) - len(bad)}/{len(results)} as expected")
    return 0 if not bad else 1


def determinism(argv):
    from . import engine
    n = int(argv[argv.index("--n") + 1]) if "--n" in argv else 32
    prop = argv[argv.index("--prop") + 1] if "--prop" in argv else None
    props = [prop] if prop else engine.PROPS
    main = os.path.join(VERIF, "cardsim_main.py")
    bad = 0
    report = {}

    def fresh(pid, seed, hashseed):
        env = dict(os.environ, PYTHONHASHSEED=str(hashseed))
        r = subprocess.run([sys.executable, main, "digest", pid, str(seed)], env=env,
                           capture_output=True, text=True, timeout=1800)
        return r.stdout.strip().splitlines()[-1] if r.stdout.strip() else f"<exit {r.returncode}>"

    for pid in props:
        try:
            mod = engine.prop_module(pid)
        except ImportError:
            continue
        if not hasattr(mod, "digest_slice"):
            continue
        mism = 0
        with concurrent.futures.ThreadPoolExecutor(max_workers=16) as ex:
            f1 = {s: ex.submit(fresh, pid, s, 0) for s in range(n)}
            f2 = {s: ex.submit(fresh, pid, s, 99991 + s) for s in range(n)}
            for s in range(n):
                a, b = f1[s].result(), f2[s].result()
                if a != b or a.startswith("<"):
                    mism += 1
                    print(f"DETERMINISM MISMATCH {pid} seed={s}: {a} vs {b}")
        report[pid] = {"seeds": n, "mismatches": mism}
        print(f"determinism {pid}: {n} seeds x 2 fresh interpreters (different PYTHONHASHSEED): {mism} mismatches")
        bad += mism
    if "--workers-check" in argv:
        # whole quick check at two worker counts: run digest, evaluation and distinct counts must agree
        for pid in props:
            outs = []
            for w in (3, 16):
                tmp = tempfile.mkdtemp(prefix="cardsim-det-")
                env = dict(os.environ, VERIF_WORKERS=str(w), CARDSIM_OUT=tmp, VERIF_SEED="5")
                subprocess.run([os.path.join(VERIF, "check"), pid], env=env, capture_output=True, text=True, timeout=3600)
                try:
                    with open(os.path.join(tmp, "evidence", f"{pid}.json")) as f:
                        cov = json.load(f)["coverage"]
                    outs.append((cov["run_digest"], cov["evaluations"], cov["distinct_nontrivial"]))
                except Exception as e:  # noqa
                    outs.append(("<no evidence>", repr(e)))
                shutil.rmtree(tmp, ignore_errors=True)
            same = outs[0] == outs[1]
            report.setdefault(pid, {})["workers_3_vs_16"] = {"same": same, "values": outs}
            print(f"determinism {pid}: whole quick check with 3 and with 16 workers: {'identical' if same else 'DIFFERENT'} {outs[0]}")
            bad += 0 if same else 1
    os.makedirs(os.path.join(VERIF, "selftest"), exist_ok=True)
    if not prop:
        with open(os.path.join(VERIF, "selftest", "determinism.json"), "w") as f:
            json.dump(report, f, indent=1)
            f.write("\n")
    return 0 if bad == 0 else 2


def main(argv):
    if not argv:
        print(__doc__)
        return 2
    if argv[0] == "sensitivity":
        return sensitivity(argv[1:])
    if argv[0] == "determinism":
        return determinism(argv[1:])
    print(__doc__)
    return 2
