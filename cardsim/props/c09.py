"""C09 - a file cut short at any byte yields only its complete records, then stops / errors.

Simulation: writer actor -> SimFile with a crash budget (real kill at byte k, torn in-flight
write) or truncation of the finished image -> restart -> fresh reader actor on the surviving image.
Crash offsets are enumerated exhaustively per file; files are seeded samples.
"""
import hashlib

from .. import pipeline, refmodel, shrink, sut
from ..kernel import Streams, sub_seed, EventLog, sig64, canon
from . import common

ID = "C09"
LEVEL = "fault_enumeration"
BUDGET_S = {"quick": 0, "thorough": 900}
RULE = ("case = (generated file, crash offset k): VBS / 1014-blocked VBS / IPM files from the seeded workload "
        "(boundary-biased record lengths, padding- and terminator-like content, MAX_VBS_RECORD_LENGTH knob), "
        "every truncation offset 0..len(file) for VBS-level files of up to 40000 bytes, every offset within +-8 of each "
        "structural boundary plus a stride of 97 for IPM-level and larger files, plus real kill-at-byte-k runs through the crash budget; "
        "distinct = distinct (file digest, fault kind, k); non-trivial = 0 < k < len(file)")
COMPONENTS = {
    "real": ["cardutil.mciipm.VbsWriter", "cardutil.mciipm.IpmWriter", "cardutil.mciipm.Block1014",
             "cardutil.mciipm.VbsReader", "cardutil.mciipm.IpmReader", "cardutil.mciipm.Unblock1014",
             "cardutil.mciipm.vbs_bytes_to_list", "cardutil.iso8583.dumps/loads (IPM level)"],
    "stub": ["SimFile (in-memory file with crash budget, stands for the OS file layer)"],
    "reference": ["refmodel.vbs_parse", "refmodel.payload"],
}
ASSUMPTIONS = [
    "file objects honour the io.BufferedIOBase contract (read(n) returns n bytes unless EOF)",
    "a crash leaves a prefix of the bytes issued so far (writers only append; checked by the kill-image == prefix probe)",
    "for IPM-level files the expected decoded messages are the fault-free control read of the same file",
]

QUICK_FILES = 384
CHUNK = 8


def plan(tier, seed, wave):
    if tier == "quick":
        if wave > 0:
            return []
        n = QUICK_FILES
    else:
        n = 1536
    start = wave * n
    return [{"seed": seed, "start": start + j, "n": min(CHUNK, n - j), "tier": tier}
            for j in range(0, n, CHUNK)]


def gen(seed_i, tier):
    nmax = 12 if tier == "quick" else 40
    st = Streams(seed_i)
    levels = ("vbs", "vbs", "ipm")
    scn = common.gen_pipeline_scenario(seed_i, level_choices=levels, nmax=nmax)
    scn["reader"] = "func" if (scn["level"] == "vbs" and st["knobs2"].random() < 0.15) else "class"
    if scn["reader"] == "class" and st["knobs2"].random() < 0.2:
        scn["read_storage"] = "pipe"     # the surviving file is read through a non-seekable stream
    return scn


def judge_image(scn, image, asked, control_items, via):
    """the C09 oracle on one surviving image; returns (fails, obs, tail, n_complete)"""
    maxlen = common.maxlen_of(scn)
    complete, tail = refmodel.vbs_parse(common.stream_of(scn, image), maxlen)
    fails = []
    tag = f"{scn['level']}|blk={int(scn['blocked'])}|rd={scn.get('reader', 'class')}"
    # writer side, judged for real kills only: what a killed writer left on the disk must be complete
    # records it was asked to write (a finished file that is simply wrong is C03's business, not C09's)
    if via == "crash" and complete != asked[:len(complete)]:
        fails.append({"oracle": "C09.writer.disk_holds_prefix_of_asked",
                      "detail": f"{via}: the image holds {len(complete)} complete records that are not a prefix of the records written",
                      "sig": f"C09.writer.disk_holds_prefix_of_asked|{tag}|{via}"})
    obs = pipeline.read_phase(scn, image, storage=scn.get("read_storage", "sim"))
    if scn["level"] == "vbs":
        expected = complete
    else:
        expected = control_items[:len(complete)]
        if len(control_items) < len(complete):
            expected = None
    if obs.end.startswith("foreign"):
        fails.append({"oracle": "C09.reader.only_library_error",
                      "detail": f"{via}: reader raised {obs.end[8:]} ({obs.err_text}) after {len(obs.items or [])} records; tail={tail}",
                      "sig": f"C09.reader.only_library_error|{tag}|{obs.end}|tail={tail}"})
    elif obs.items is None:
        pass  # list function raised the library error: nothing delivered, nothing to compare
    elif expected is None or obs.items != expected:
        n_exp = len(complete)
        fails.append({"oracle": "C09.reader.exact_complete_records",
                      "detail": f"{via}: image of {len(image)} bytes wholly contains {n_exp} records; reader delivered "
                                f"{len(obs.items)} then {obs.end}; tail={tail}"
                                + ("" if len(obs.items) != n_exp else " (content differs)"),
                      "sig": f"C09.reader.exact_complete_records|{tag}|end={obs.end}|tail={tail}"})
    return fails, obs, tail, len(complete)


def offsets_for(scn, asked, total):
    if scn["level"] == "vbs" and total <= 40000:
        return range(0, total + 1)
    pts = set(common.boundary_offsets(asked, scn["blocked"], total))
    pts.update(range(0, total + 1, 97))
    return sorted(pts)


def kill_offsets(rng, scn, asked, total, n):
    """crash points for the real kill runs: boundary-biased, incl. inside close() (terminator, fill)"""
    near = common.boundary_offsets(asked, scn["blocked"], total)
    out = set()
    body = sum(len(a) + 4 for a in asked)
    body_file = body if not scn["blocked"] else (body // 1012) * 1014 + body % 1012
    for _ in range(n):
        r = rng.random()
        if r < 0.5 and near:
            out.add(rng.choice(near))
        elif r < 0.7:
            out.add(rng.randint(min(body_file, total), total))  # inside close(): terminator / fill
        else:
            out.add(rng.randint(0, total))
    return sorted(out)


def run_file(seed_i, tier, part, keep_fail_scn=True):
    scn = gen(seed_i, tier)
    items = pipeline.scenario_items(scn)
    try:
        asked = pipeline.asked_records(scn, items)
    except Exception:
        # the encoder refuses a well-formed message: C06's business, nothing for C09 to judge
        part["counters"]["probe:base_file_not_writable"] += 1
        return
    log = EventLog()
    ctrl = pipeline.write_phase(scn, log=log, items=items)
    final = ctrl.image
    total = len(final)
    h = hashlib.sha256(canon(scn).encode())
    h.update(log.digest().encode())
    file_digest = hashlib.sha1(final).hexdigest()[:12]
    part["runs"] += 1
    part["events"] += log.seq
    part["counters"][f"knob:MAX={common.maxlen_of(scn)}"] += 1
    part["counters"][f"knob:level={scn['level']},blocked={int(scn['blocked'])},api={scn.get('api')},reader={scn.get('reader')}"] += 1
    part["counters"]["storage:sim"] += 1
    if scn.get("read_storage") == "pipe":
        part["counters"]["storage:read_back_through_non_seekable_stream"] += 1
    if ctrl.error or ctrl.fin_errors:
        # a writer that raises on a fault-free workload is C03 / C06's business, not a crash-point verdict
        part["counters"]["probe:base_file_not_writable"] += 1
        return
    control_items = None
    if scn["level"] == "ipm":
        cobs = pipeline.read_phase(dict(scn, reader="class"), final)
        control_items = cobs.items
        if cobs.end != "stop" or len(control_items or []) != len(asked):
            # the decoder refuses a well-formed message of the complete file: C06's business; C09 has no
            # expected decoded values to compare with
            part["counters"]["probe:base_file_not_readable_when_complete"] += 1
            return
    if ctrl.nonprefix == 0:
        part["counters"]["probe:writer_append_only_runs"] += 1
    else:
        part["counters"]["probe:writer_overwrote_bytes_runs"] += 1

    nfail = 0
    ntriv = 0
    tails = part["counters"]
    for k in offsets_for(scn, asked, total):
        fails, obs, tail, ncomp = judge_image(scn, final[:k], asked, control_items, "truncate")
        part["evals"] += 1
        part["events"] += obs.io_ops
        tails[f"probe:cut_{tail}"] += 1
        tails[f"outcome:{obs.end}"] += 1
        if scn["blocked"]:
            r = k % refmodel.BLOCK
            if r >= refmodel.PAYLOAD:
                tails["probe:cut_inside_block_trailer"] += 1
            elif r == 0:
                tails["probe:cut_on_block_edge"] += 1
        if 0 < k < total:
            ntriv += 1
        h.update(f"{k},{len(obs.items) if obs.items is not None else -1},{obs.end},{obs.err_recno};".encode())
        for fl in fails:
            nfail += 1
            if nfail <= 2:
                fl["scenario"] = dict(scn, fault={"kind": "truncate", "at": k})
                part["fails"].append(fl)
    part["counters"]["fault:truncate"] += ntriv

    # real kills through the crash budget
    rng = Streams(seed_i)["faults"]
    nk = 24 if tier == "quick" else 64
    if scn.get("api") != "func":
        for k in kill_offsets(rng, scn, asked, total, nk):
            klog = EventLog(keep=False)
            wr = pipeline.write_phase(scn, crash_at=k, log=klog, items=items)
            part["evals"] += 1
            part["events"] += klog.seq
            if wr.crashed:
                part["counters"]["fault:crash"] += 1
                if k < total and k > 0:
                    ntriv += 1
            else:
                part["counters"]["probe:crash_budget_beyond_file"] += 1
            if wr.image == final[:k]:
                part["counters"]["probe:kill_image_equals_prefix"] += 1
            else:
                part["counters"]["probe:kill_image_differs_from_prefix"] += 1
            fails, obs, tail, ncomp = judge_image(scn, wr.image, asked, control_items, "crash")
            part["events"] += obs.io_ops
            tails[f"outcome:{obs.end}"] += 1
            h.update(f"K{k},{len(wr.image)},{len(obs.items) if obs.items is not None else -1},{obs.end};".encode())
            for fl in fails:
                nfail += 1
                if nfail <= 4:
                    fl["scenario"] = dict(scn, fault={"kind": "crash", "at": k})
                    part["fails"].append(fl)
    part["wsigs"][sig64("C09", file_digest, canon(scn.get("knobs")), scn["blocked"])] = ntriv
    part["digests"].append(h.hexdigest()[:16])
    if len(part["samples"]) < 2:
        part["samples"].append({"scenario": _brief(scn), "file_bytes": total,
                                "offsets_enumerated": len(offsets_for(scn, asked, total)), "kills": nk})


def _brief(scn):
    s = dict(scn)
    if "messages" in s and len(s["messages"]) > 2:
        s["messages"] = s["messages"][:2] + [f"... {len(scn['messages']) - 2} more"]
    if "config" in s and isinstance(s["config"], dict):
        s["config"] = f"<generated config with {len(s['config'])} bits>"
    return s


def run_task(task):
    from ..engine import new_partial
    part = new_partial()
    part["wsigs"] = {}
    for i in range(task["start"], task["start"] + task["n"]):
        run_file(sub_seed(task["seed"], ID, i), task["tier"], part)
    return part


def digest_slice(seed):
    from ..engine import new_partial
    part = new_partial()
    part["wsigs"] = {}
    for i in range(4):
        run_file(sub_seed(seed, ID, i), "quick", part)
    return hashlib.sha256("".join(part["digests"]).encode()).hexdigest()[:16]


# ---------------------------------------------------------------------------------------------
# single-scenario judge (replay, confirm, minimise)
# ---------------------------------------------------------------------------------------------

def judge_scenario(scn):
    items = pipeline.scenario_items(scn)
    asked = pipeline.asked_records(scn, items)
    fault = scn.get("fault")
    base = {k: v for k, v in scn.items() if k != "fault"}
    ctrl = pipeline.write_phase(base, items=items)
    if ctrl.error or ctrl.fin_errors:
        return [{"oracle": "C09.control.writer_completes", "detail": str(ctrl.error or ctrl.fin_errors),
                 "sig": f"C09.control.writer_completes|{scn['level']}|{(ctrl.error or ctrl.fin_errors[0])[0]}"}]
    control_items = None
    if scn["level"] == "ipm":
        control_items = pipeline.read_phase(dict(base, reader="class"), ctrl.image).items
    if fault is None:
        image, via = ctrl.image, "truncate"
    elif fault["kind"] == "truncate":
        image, via = ctrl.image[:fault["at"]], "truncate"
    else:
        image, via = pipeline.write_phase(base, crash_at=fault["at"], items=items).image, "crash"
    fails, obs, tail, ncomp = judge_image(base, image, asked, control_items, via)
    return fails


def _first_failing_fault(base, oracle, kind, deadline=None):
    items = pipeline.scenario_items(base)
    asked = pipeline.asked_records(base, items)
    ctrl = pipeline.write_phase(base, items=items)
    if ctrl.error or ctrl.fin_errors:
        return None
    control_items = None
    if base["level"] == "ipm":
        control_items = pipeline.read_phase(dict(base, reader="class"), ctrl.image).items
    total = len(ctrl.image)
    for k in range(0, total + 1):
        if kind == "truncate":
            image = ctrl.image[:k]
        else:
            image = pipeline.write_phase(base, crash_at=k, items=items).image
        fails, *_ = judge_image(base, image, asked, control_items, kind)
        if any(f["oracle"] == oracle for f in fails):
            return {"kind": kind, "at": k}
        if deadline is not None and deadline.over():
            return None
    return None


def minimise(scn, oracle):
    dl = shrink.Deadline(120)
    kind = (scn.get("fault") or {"kind": "truncate"})["kind"]
    base = {k: v for k, v in scn.items() if k != "fault"}
    key = "records" if base["level"] == "vbs" else "messages"
    base.pop("writer_ops", None)

    def ok(cand):
        return common.valid_scenario(cand) and _first_failing_fault(cand, oracle, kind, dl) is not None

    def with_items(lst):
        return dict(base, **{key: lst})

    if not ok(base):
        return scn
    # simpler configuration first
    for alt in ({"api": "write"}, {"reader": "class"}, {"knobs": {"MAX_VBS_RECORD_LENGTH": 6000}}, {"blocked": False}):
        cand = dict(base, **alt)
        if cand != base and not dl.over() and ok(cand):
            base = cand
    lst = shrink.ddmin(base[key], lambda l: len(l) > 0 and ok(with_items(l)), dl, min_len=1)
    base = with_items(lst)
    if key == "records":
        from ..kernel import spec_len
        for i in range(len(lst)):
            if dl.over():
                break
            n0 = spec_len(lst[i])

            def test_len(n, i=i):
                c = list(base[key])
                c[i] = {"pos": [0, n]}
                return ok(with_items(c))
            if test_len(n0):
                n = shrink.shrink_int(n0, 1, test_len, dl)
                c = list(base[key])
                c[i] = {"pos": [0, n]}
                base = with_items(c)
    else:
        for i in range(len(lst)):
            if dl.over():
                break
            msg = base[key][i]
            keys = [k for k in msg if k != "MTI"]

            def test_keys(ks, i=i, msg=msg):
                c = list(base[key])
                c[i] = {k: v for k, v in msg.items() if k == "MTI" or k in ks}
                return ok(with_items(c))
            ks = shrink.ddmin(keys, test_keys, dl)
            c = list(base[key])
            c[i] = {k: v for k, v in msg.items() if k == "MTI" or k in ks}
            base = with_items(c)
    fault = _first_failing_fault(base, oracle, kind)
    if fault is None:
        return scn
    return dict(base, fault=fault)
