"""C07 - decoding never hangs or crashes: any bytes give a result or the library's data error.

Simulation: a stored object written by the real writer is damaged by the disk actor (directed
single-byte substitutions at every framing site, odd numerals, splices, multi-point mutations,
truncation) or replaced by seeded noise, then consumed by loads / VbsReader / IpmReader / the two
command line tools, every consumer inside the deterministic step budget.
"""
import hashlib

from .. import corrupt, faults, msgcodec, refmodel, shrink, sut
from ..kernel import Streams, sub_seed, sig64, canon, hexspec
from ..simfs import apply_faults
from . import decfam

ID = "C07"
LEVEL = "exploration"
BUDGET_S = {"quick": 0, "thorough": 900}
RULE = ("case = (stored bytes, consumer). Messages: seeded well-formed messages (latin_1/ascii/cp500/cp037, binary and "
        "hex bitmap, packaged and generated configurations incl. decimal/datetime types) x every single-byte substitution "
        "of every length-prefix, PDS sub-length/tag, bitmap, TLV tag/length, MTI and typed-field byte with a curated value "
        "set (quick) or all 256 values (thorough), odd numerals in every prefix and PDS sub-length, negative/zero/overlong "
        "splices, consistent edits, truncation at every element boundary, 1-3 random mutations; raw seeded byte strings as "
        "messages and as files; files: every VBS length-field byte x values, oversize lengths, random mutations, through "
        "VbsReader, IpmReader (VBS and 1014) and the mci_ipm_to_csv / mideu extract tools. distinct = distinct sha1 of the "
        "consumed bytes + consumer; non-trivial = bytes differ from the clean object and the consumer got past the header")
COMPONENTS = {
    "real": ["cardutil.iso8583.loads", "cardutil.iso8583.dumps (clean objects)", "cardutil.mciipm.VbsReader",
             "cardutil.mciipm.IpmReader", "cardutil.mciipm.IpmWriter (clean files)",
             "cardutil.cli.mci_ipm_to_csv.cli_run", "cardutil.cli.mideu.cli_run(extract)"],
    "stub": ["SimFile / SimFS (module attribute `open` of the two tools shadowed)", "disk fault applier"],
    "reference": ["refiso.ref_read (fault-site spans only)", "steps.Budget (deterministic line-step budget)"],
}
ASSUMPTIONS = ["'terminates promptly' = within 20000 + 100 x len(input) traced source lines of cardutil code "
               "(measured: a legitimate decode needs at most ~3 lines per input byte; the vendored hexdump helper is not traced)",
               "the tools run with the packaged configuration (their configuration lookup is not a fault target)"]


def judge_msg_outcome(out, consumer="loads"):
    if out.kind == "foreign":
        return [{"oracle": "C07.loads.only_library_error",
                 "detail": f"{consumer} raised {out.exc_type}: {out.exc_text} (in {out.where})",
                 "sig": f"C07.loads.only_library_error|{out.exc_type}|{out.where}"}]
    if out.kind == "budget":
        return [{"oracle": "C07.loads.terminates",
                 "detail": f"{consumer} did not terminate within the step budget ({out.steps} lines; last at {out.where})",
                 "sig": f"C07.loads.terminates|{(out.where or '').split(':')[0].split(' ')[0]}"}]
    return []


def judge_file_outcome(out, reader):
    if reader in ("VbsReader", "IpmReader"):
        if out.kind == "foreign":
            return [{"oracle": "C07.reader.only_library_error",
                     "detail": f"{reader} raised {out.exc_type}: {out.exc_text} (in {out.where}) after {len(out.items)} records",
                     "sig": f"C07.reader.only_library_error|{reader}|{out.exc_type}|{out.where}"}]
        if out.kind == "budget":
            return [{"oracle": "C07.reader.terminates",
                     "detail": f"{reader} did not terminate within the step budget (last at {out.where})",
                     "sig": f"C07.reader.terminates|{reader}|{(out.where or '').split(':')[0]}"}]
        return []
    if out.kind == "foreign":
        return [{"oracle": "C07.tool.stops_with_diagnostic",
                 "detail": f"{reader} let {out.exc_type} escape: {out.exc_text} (in {out.where})",
                 "sig": f"C07.tool.stops_with_diagnostic|{reader}|{out.exc_type}|{out.where}"}]
    if out.kind == "budget":
        return [{"oracle": "C07.tool.terminates", "detail": f"{reader} did not terminate (last at {out.where})",
                 "sig": f"C07.tool.terminates|{reader}|{(out.where or '').split(':')[0]}"}]
    # the return value convention is the tool's own business; what the property demands is that a
    # failing run says so: the error exit (-1 today) must come with a diagnostic on stdout
    if out.rc == -1 and "error" not in (out.stdout or "").lower():
        return [{"oracle": "C07.tool.stops_with_diagnostic",
                 "detail": f"{reader} returned {out.rc!r} without printing any error diagnostic",
                 "sig": f"C07.tool.stops_with_diagnostic|{reader}|rc"}]
    return []


def judge_scenario(scn):
    if scn["kind"] in ("msg_corrupt",) or (scn["kind"] == "raw_bytes" and scn.get("as") == "message"):
        b, out, cfg, enc, hexb = corrupt.run_message(scn)
        return judge_msg_outcome(out)
    image, out = corrupt.run_file(scn)
    return judge_file_outcome(out, scn.get("reader", "IpmReader"))


def _count(part, out, cls, changed, b, consumer):
    c = part["counters"]
    part["evals"] += 1
    part["steps"] += out.steps
    part["events"] += 1
    oc = {"dict": "ok", "stop": "ok", "rc": "ok" if out.rc is None else "tool_error_exit",
          "liberr": "library_error", "foreign": "foreign_exception", "budget": "budget"}[out.kind]
    c[f"outcome:{consumer}:{oc}"] += 1
    for k in cls.split("+"):
        c[f"fault:{k}"] += 1
    if changed and out.steps > 60:
        part["sigs"].add(sig64(consumer, hashlib.sha1(b).digest()))


def run_msg_base(seed_i, tier, part, directed=True):
    base = decfam.gen_base(seed_i)
    clean, rd, cfg = decfam.clean_and_reading(base)
    rng = Streams(seed_i)["faults"]
    c = part["counters"]
    c[f"knob:enc={base['encoding']},hex={int(base['hex_bitmap'])},cfg={'packaged' if base['config'] == 'packaged' else 'generated'}"] += 1
    if any(e.get("pds") for e in rd.spans["elems"]):
        c["probe:pds_walker_entered"] += 1
    if any(e.get("tlv") for e in rd.spans["elems"]):
        c["probe:icc_walker_entered"] += 1
    if base["hex_bitmap"]:
        c["probe:hex_bitmap_path"] += 1
    part["runs"] += 1
    hangs = 0
    h = hashlib.sha256(canon(base).encode())
    for fl in decfam.plan_message_faults(base, clean, rd, tier, rng, directed=directed):
        b = apply_faults(clean, fl)
        scn = dict(base, faults=fl)
        _, out, _, _, _ = corrupt.run_message(scn, b)
        _count(part, out, faults.fault_class(fl), b != clean, b, "loads")
        h.update(f"{out.kind},{out.exc_type},{out.steps};".encode())
        if out.kind == "budget":
            hangs += 1
            if hangs >= 3:
                # every further case of this base would burn a whole budget: enough evidence, move on
                c["probe:base_abandoned_after_repeated_nontermination"] += 1
                for v in judge_msg_outcome(out):
                    if sum(1 for x in part["fails"] if x["sig"] == v["sig"]) < 1 and len(part["fails"]) < 12:
                        v["scenario"] = scn
                        part["fails"].append(v)
                break
        for v in judge_msg_outcome(out):
            if sum(1 for x in part["fails"] if x["sig"] == v["sig"]) < 1 and len(part["fails"]) < 12:
                v["scenario"] = scn
                part["fails"].append(v)
    part["digests"].append(h.hexdigest()[:16])
    if len(part["samples"]) < 1:
        part["samples"].append(dict(base, faults=[faults.sub(22, 0x2D, "de_prefix")]))


def gen_raw(seed_i):
    st = Streams(seed_i)
    rng = st["workload"]
    kn = st["knobs"]
    enc = kn.choice(decfam.ENCODINGS)
    hexb = kn.random() < 0.25
    r = rng.random()
    if r < 0.4:
        b = rng.randbytes(rng.randint(0, 300))
    elif r < 0.5:
        b = rng.randbytes(rng.randint(300, 7000))
    else:
        # valid header (numeric MTI + plausible bitmap) followed by noise
        mti = faults.enc_text("".join(rng.choice("0123456789") for _ in range(4)), enc)
        bm = bytearray(16)
        for _ in range(rng.randint(1, 6)):
            bit = rng.choice([2, 3, 4, 12, 22, 24, 26, 31, 33, 38, 43, 48, 48, 55, 55, 62, 63, 71, 94, 123, 127])
            bm[(bit - 1) // 8] |= 0x80 >> ((bit - 1) % 8)
        bm[0] |= 0x80
        bmb = bytes(bm).hex().encode() if hexb else bytes(bm)
        body = bytearray()
        for _ in range(rng.randint(0, 8)):
            t = rng.random()
            if t < 0.4:
                body += faults.enc_text(f"{rng.randint(0, 30):0{rng.choice([2, 3])}d}", enc)
            elif t < 0.7:
                body += faults.enc_text("".join(rng.choice("0123456789-+ ") for _ in range(rng.randint(1, 12))), enc)
            else:
                body += rng.randbytes(rng.randint(1, 20))
        b = mti + bmb + bytes(body)
    return {"kind": "raw_bytes", "as": "message", "bytes": hexspec(b), "encoding": enc, "config": "packaged", "hex_bitmap": hexb}


def file_fault_plans(base, image, stored, tier, rng):
    """fault lists against a clean file image: every VBS length-field byte x values, oversize lengths,
    random multi-point mutations, truncations"""
    out = [[]]
    vals = range(256) if tier == "thorough" else [0x00, 0x01, 0x7F, 0x80, 0xFF, 0x40, 0x17, 0x71, 0x30]
    # locate the length fields in the file (payload offsets -> file offsets)
    pos = 0
    offs = []
    for s in stored:
        offs.append(pos)
        pos += len(s)
    offs.append(pos)  # terminator

    def to_file(p):
        if not base["blocked"]:
            return p
        blk, r = divmod(p, 1012)
        return blk * 1014 + r

    for o in offs:
        for d in range(4):
            for v in vals:
                out.append([{"kind": "substitute", "off": to_file(o + d), "val": v, "cls": "vbs_length_byte"}])
    for o in offs[:-1]:
        for big in (6001, 6000, 65536, 0x7FFFFFFF, 0xFFFFFFFF, 0x40404040, 0x20202020, 0x80000000):
            out.append([{"kind": "substitute", "off": to_file(o + i), "val": big.to_bytes(4, "big")[i], "cls": "oversize_length"} for i in range(4)])
    for _ in range(30 if tier == "quick" else 150):
        out.append(faults.random_faults(rng, len(image)))
    for k in sorted(set(rng.randint(0, len(image)) for _ in range(12))):
        out.append([{"kind": "truncate", "at": k, "cls": "truncate"}])
    if base["blocked"]:
        for b0 in range(0, len(image), 1014):
            out.append([{"kind": "substitute", "off": b0 + 1012, "val": 0x00, "cls": "block_trailer_byte"}])
    # the first 24 bytes of the file (length, MTI, bitmap of record 1) are also inspected by the tools'
    # file diagnostics before / outside their error handling: every byte x curated values
    for off in range(0, min(24, len(image))):
        for v in faults.curated_values(base["encoding"]):
            if v != image[off]:
                out.append([{"kind": "substitute", "off": off, "val": v, "cls": "file_header_region"}])
    return out


def run_file_base(seed_i, tier, part):
    st = Streams(seed_i)
    kn = st["knobs"]
    tools = kn.random() < 0.5
    base = decfam.gen_file_base(seed_i, tools=tools)
    rng = st["faults"]
    image, stored = corrupt.file_image(base)
    part["runs"] += 1
    readers = ["IpmReader", "VbsReader"] + (["mci_ipm_to_csv", "mideu"] if tools else [])
    h = hashlib.sha256(canon(base).encode())
    plans = file_fault_plans(base, image, stored, tier, rng)
    # message-level faults inside one record (re-framed), so that decode errors travel through the readers / tools
    from .. import refiso
    cfg = msgcodec.effective_cfg(base["config"])
    rec_plans = []
    for k in range(len(stored)):
        rec = stored[k][4:]
        rd = refiso.ref_read(rec, cfg, base["encoding"], False)
        if rd.cls != "ACCEPT":
            continue
        allf = decfam.plan_message_faults(dict(base, hex_bitmap=False), rec, rd, "quick", rng, directed=False)
        for fl in rng.sample(allf, min(len(allf), 12 if tier == "quick" else 60)):
            rec_plans.append([{"record": k + 1, "faults": fl}])
        if k < 2:
            # data-derived text reaches the error messages the tools print: always include these
            for fl in list(faults.pds_header_faults(rd.spans, base["encoding"]))[:7]:
                rec_plans.append([{"record": k + 1, "faults": fl}])
    idx = 0
    hangs = 0
    for fl in plans:
        if hangs >= 3:
            part["counters"]["probe:base_abandoned_after_repeated_nontermination"] += 1
            break
        img = apply_faults(image, fl)
        idx += 1
        reader = readers[idx % len(readers)]
        if tools and fl and fl[0].get("cls") == "file_header_region":
            reader = ("mci_ipm_to_csv", "mideu", "mci_ipm_to_csv", "IpmReader")[idx % 4]
        scn = dict(base, file_faults=fl, reader=reader)
        if idx % 5 == 0:
            scn["pipe"] = True       # read through a non-seekable stream
        _, out = corrupt.run_file(scn, img)
        hangs += 1 if out.kind == "budget" else 0
        _count(part, out, faults.fault_class(fl), img != image, img, reader)
        if out.kind == "rc" and "error" in (out.stdout or "").lower():
            part["counters"]["probe:tool_printed_diagnostics"] += 1
        h.update(f"{out.kind},{out.exc_type},{out.steps};".encode())
        for v in judge_file_outcome(out, reader):
            if sum(1 for x in part["fails"] if x["sig"] == v["sig"]) < 1 and len(part["fails"]) < 12:
                v["scenario"] = scn
                part["fails"].append(v)
    for rf in rec_plans:
        if hangs >= 3:
            break
        idx += 1
        reader = readers[idx % len(readers)]
        scn = dict(base, rec_faults=rf, reader=reader)
        img, _ = corrupt.file_image(scn)
        _, out = corrupt.run_file(scn, img)
        hangs += 1 if out.kind == "budget" else 0
        _count(part, out, "rec:" + faults.fault_class(rf[0]["faults"]), img != image, img, reader)
        if out.kind == "rc" and "error" in (out.stdout or "").lower():
            part["counters"]["probe:tool_printed_diagnostics"] += 1
        h.update(f"{out.kind},{out.exc_type},{out.steps};".encode())
        for v in judge_file_outcome(out, reader):
            if sum(1 for x in part["fails"] if x["sig"] == v["sig"]) < 1 and len(part["fails"]) < 12:
                v["scenario"] = scn
                part["fails"].append(v)
    part["digests"].append(h.hexdigest()[:16])


def gen_rawfile(seed_i):
    st = Streams(seed_i)
    rng = st["workload"]
    kn = st["knobs"]
    r = rng.random()
    if r < 0.5:
        b = rng.randbytes(rng.randint(0, 300))
    elif r < 0.7:
        b = rng.randbytes(rng.randint(300, 7000))
    else:
        # plausible VBS framing around noise
        b = bytearray()
        for _ in range(rng.randint(1, 5)):
            n = rng.randint(0, 60)
            b += n.to_bytes(4, "big") + rng.randbytes(n + rng.choice([0, 0, -1, 1]) if n else 0)
        b = bytes(b)
    return {"kind": "raw_bytes", "as": "file", "bytes": hexspec(b), "encoding": kn.choice(["latin_1", "cp500"]),
            "config": "packaged", "blocked": kn.random() < 0.5, "pipe": kn.random() < 0.3,
            "reader": kn.choice(["VbsReader", "IpmReader", "mci_ipm_to_csv", "mideu"])}


def plan(tier, seed, wave):
    if tier == "quick":
        if wave > 0:
            return []
        nm, nr, nf, nrf = 48, 20000, 36, 6000
    else:
        nm, nr, nf, nrf = 48, 40000, 48, 10000   # per wave; waves repeat until VERIF_BUDGET_S is used
    tasks = []
    for j in range(0, nm):
        tasks.append({"fam": "msg", "seed": seed, "start": wave * nm + j, "n": 1, "tier": tier})
    for j in range(0, nf):
        tasks.append({"fam": "file", "seed": seed, "start": wave * nf + j, "n": 1, "tier": tier})
    for j in range(0, nr, 1000):
        tasks.append({"fam": "raw", "seed": seed, "start": wave * nr + j, "n": 1000, "tier": tier})
    for j in range(0, nrf, 1000):
        tasks.append({"fam": "rawfile", "seed": seed, "start": wave * nrf + j, "n": 1000, "tier": tier})
    return tasks


def run_task(task):
    from ..engine import new_partial
    part = new_partial()
    for i in range(task["start"], task["start"] + task["n"]):
        s = sub_seed(task["seed"], ID, task["fam"], i)
        if task["fam"] in ("msg", "file"):
            try:
                (run_msg_base if task["fam"] == "msg" else run_file_base)(s, task["tier"], part)
            except corrupt.BaseNotWritable:
                # the real writer refused the well-formed base object: C06's business, not C07's
                part["counters"]["probe:base_object_not_writable"] += 1
        elif task["fam"] == "raw":
            scn = gen_raw(s)
            b, out, cfg, enc, hexb = corrupt.run_message(scn)
            _count(part, out, "raw_bytes_message", True, b, "loads")
            part["runs"] += 1
            for v in judge_msg_outcome(out):
                if sum(1 for x in part["fails"] if x["sig"] == v["sig"]) < 1 and len(part["fails"]) < 12:
                    v["scenario"] = scn
                    part["fails"].append(v)
        else:
            scn = gen_rawfile(s)
            img, out = corrupt.run_file(scn)
            _count(part, out, "raw_bytes_file", True, img, scn["reader"])
            part["runs"] += 1
            for v in judge_file_outcome(out, scn["reader"]):
                if sum(1 for x in part["fails"] if x["sig"] == v["sig"]) < 1 and len(part["fails"]) < 12:
                    v["scenario"] = scn
                    part["fails"].append(v)
    return part


def digest_slice(seed):
    try:
        return _digest_slice(seed)
    except corrupt.BaseNotWritable:
        return "base-object-not-writable"


def _digest_slice(seed):
    from ..engine import new_partial
    part = new_partial()
    run_msg_base(sub_seed(seed, ID, "msg", 0), "quick", part, directed=False)
    run_msg_base(sub_seed(seed, ID, "msg", 1), "quick", part, directed=False)
    for i in range(200):
        scn = gen_raw(sub_seed(seed, ID, "raw", i))
        b, out, cfg, enc, hexb = corrupt.run_message(scn)
        part["digests"].append(f"{out.kind},{out.exc_type},{out.steps}")
    for i in range(100):
        scn = gen_rawfile(sub_seed(seed, ID, "rawfile", i))
        img, out = corrupt.run_file(scn)
        part["digests"].append(f"{out.kind},{out.exc_type},{out.steps},{out.rc}")
    return hashlib.sha256("".join(part["digests"]).encode()).hexdigest()[:16]


def minimise(scn, oracle):
    return minimise_corrupt(scn, oracle, judge_scenario)


def minimise_corrupt(scn, oracle, judge, same_sig=True):
    """fewer faults, then (message scenarios) raw bytes with chunks removed / zeroed"""
    dl = shrink.Deadline(75)
    first = [f for f in judge(scn) if f["oracle"] == oracle]
    if not first:
        return scn
    sig = first[0]["sig"]

    def ok(c):
        try:
            return any(f["oracle"] == oracle and (not same_sig or f["sig"] == sig) for f in judge(c))
        except Exception:
            return False

    cur = dict(scn)
    if cur["kind"] == "msg_corrupt":
        small = _minimise_by_replanning(cur, ok, dl)
        if small is not None:
            return small
        if cur.get("faults"):
            cur["faults"] = shrink.ddmin(cur["faults"], lambda fl: ok(dict(cur, faults=fl)), dl)
        # fewer message keys while the fault offsets still hit (offsets shift, so only try, never insist)
        b = corrupt.message_bytes(cur)
        raw = {"kind": "raw_bytes", "as": "message", "bytes": hexspec(b), "encoding": cur["encoding"],
               "config": cur["config"], "hex_bitmap": cur.get("hex_bitmap", False)}
        if ok(raw):
            hdr = 36 if raw["hex_bitmap"] else 20
            body = list(b[hdr:])
            # drop chunks of the data part while the same verdict persists
            keep = shrink.ddmin(list(range(len(body))),
                                lambda idx: ok(dict(raw, bytes=hexspec(b[:hdr] + bytes(body[i] for i in idx)))), dl)
            nb = b[:hdr] + bytes(body[i] for i in keep)
            small = dict(raw, bytes=hexspec(nb))
            if cur["config"] != "packaged" and ok(dict(small, config="packaged")):
                small["config"] = "packaged"
            if len(nb) < len(b) or not cur.get("faults"):
                return small
        return cur
    if cur["kind"] == "ipm_corrupt":
        if cur.get("file_faults"):
            cur["file_faults"] = shrink.ddmin(cur["file_faults"], lambda fl: ok(dict(cur, file_faults=fl)), dl)
        if cur.get("rec_faults"):
            rf = cur["rec_faults"][0]
            fl = shrink.ddmin(rf["faults"], lambda x: ok(dict(cur, rec_faults=[dict(rf, faults=x)])), dl)
            cur["rec_faults"] = [dict(rf, faults=fl)]
        if not cur.get("rec_faults"):
            msgs = shrink.ddmin(cur["messages"], lambda ms: len(ms) > 0 and ok(dict(cur, messages=ms)), dl, min_len=1)
            cur["messages"] = msgs
        for alt in ({"reader": "IpmReader"}, {"blocked": False}):
            cand = dict(cur, **alt)
            if cand != cur and ok(cand):
                cur = cand
        return cur
    if cur["kind"] == "raw_bytes":
        b = corrupt.message_bytes(cur) if cur.get("as") == "message" else corrupt.file_image(cur)[0]
        keep = shrink.ddmin(list(range(len(b))), lambda idx: ok(dict(cur, bytes=hexspec(bytes(b[i] for i in idx)))), dl)
        return dict(cur, bytes=hexspec(bytes(b[i] for i in keep)))
    return cur


def _minimise_by_replanning(scn, ok, dl):
    """fewer message keys, re-running the fault planners on every candidate message (fault offsets
    move with the message, so the planned fault families are searched again for one that still
    fails the same way).  Returns None when the original fault is not one the planners regenerate."""
    import random

    def find(base):
        try:
            clean, rd, cfg = decfam.clean_and_reading(base)
        except Exception:
            return None
        if rd.cls != "ACCEPT":
            return None
        for fl in decfam.plan_message_faults(base, clean, rd, "quick", random.Random(0), directed=True):
            if dl.over():
                return None
            if fl and ok(dict(base, faults=fl)):
                return fl
        return None

    base = dict(scn, faults=[])
    if find(base) is None:
        return None
    msg = base["message"]
    keys = [k for k in msg if k != "MTI"]

    def with_keys(ks):
        return dict(base, message={k: v for k, v in msg.items() if k == "MTI" or k in ks})

    keep = shrink.ddmin(keys, lambda ks: find(with_keys(ks)) is not None, dl)
    base = with_keys(keep)
    # shorter text values
    for k in list(base["message"]):
        v = base["message"][k]
        if k != "MTI" and isinstance(v, str) and len(v) > 12 and not dl.over():
            cand = dict(base, message=dict(base["message"], **{k: v[:10]}))
            if find(cand) is not None:
                base = cand
    for alt in ({"config": "packaged"}, {"hex_bitmap": False}, {"encoding": "latin_1"}):
        cand = dict(base, **alt)
        if cand != base and not dl.over() and find(cand) is not None:
            base = cand
    fl = find(base)
    if fl is None:
        return None
    return dict(base, faults=fl)


def finalize(total, tier):
    probs = []
    for p in ("probe:pds_walker_entered", "probe:icc_walker_entered", "probe:hex_bitmap_path",
              "probe:tool_printed_diagnostics"):
        if total["counters"].get(p, 0) == 0:
            probs.append(f"reach probe {p[6:]} stayed at zero")
    return {}, probs
