"""Shared workload / fault planning for the corruption simulations (C07, C08, C10)."""
from .. import msggen, msgcodec, faults, refiso, corrupt
from ..kernel import Streams

ENCODINGS = ["latin_1", "ascii", "cp500", "cp037"]


def gen_base(seed_i, tools=False):
    """seed -> fault-free msg_corrupt scenario (swarm: encoding, config, bitmap rendering, message shape)"""
    st = Streams(seed_i)
    kn, wl = st["knobs"], st["workload"]
    enc = kn.choice(["latin_1", "cp500"]) if tools else kn.choice(ENCODINGS)
    if kn.random() < (0.75 if tools else 0.65):
        cfgj = "packaged"
    else:
        cfgj = msggen.gen_config(st["config"])
    cfg = msgcodec.effective_cfg(cfgj)
    hexb = (not tools) and kn.random() < 0.25
    msg = msggen.gen_message(wl, cfg, enc, 6000)
    if cfgj == "packaged":
        r = kn.random()
        if r < 0.5:
            msg.setdefault("DE2", "".join(wl.choice("0123456789") for _ in range(wl.randint(12, 19))))
            msg.setdefault("DE3", msggen.gen_text(wl, 6, enc))
        if kn.random() < 0.5 and not any(k.startswith("PDS") for k in msg):
            msg.update(msggen.gen_pds(wl, enc, 5, 400))
        if kn.random() < 0.4:
            msg.setdefault("DE55", msggen.gen_tlvs(wl, wl.choice([20, 60, 255])))
        while msggen.msg_size(msg, cfg) > 6000 and len(msg) > 1:
            del msg[max((k for k in msg if k != "MTI"), key=lambda k: len(msg[k]) if hasattr(msg[k], "__len__") else 12)]
    return {"kind": "msg_corrupt", "encoding": enc, "config": cfgj, "hex_bitmap": hexb,
            "message": msgcodec.msg_to_json(msg), "faults": []}


def gen_file_base(seed_i, tools=False, nmax=8):
    st = Streams(seed_i)
    kn = st["knobs"]
    n = kn.randint(1, nmax)
    msgs = []
    enc = cfgj = None
    for j in range(n):
        b = gen_base(seed_i * 1000003 + j, tools=tools)
        if j == 0:
            enc, cfgj = b["encoding"], b["config"]
            msgs.append(b["message"])
        else:
            # same encoding / config for the whole file
            cfg = msgcodec.effective_cfg(cfgj)
            m = msggen.gen_message(Streams(seed_i * 1000003 + j)["workload"], cfg, enc, 6000)
            msgs.append(msgcodec.msg_to_json(m))
    knobs = {} if kn.random() < 0.7 else {"MAX_VBS_RECORD_LENGTH": kn.choice([50, 1012, 6000, 10000])}
    return {"kind": "ipm_corrupt", "encoding": enc, "config": cfgj, "blocked": kn.random() < 0.5,
            "messages": msgs, "rec_faults": [], "file_faults": [], "reader": "IpmReader", "knobs": knobs}


def plan_message_faults(base, clean, reading, tier, rng, directed=True):
    """list of fault lists for one clean message (directed sites x values, odd numerals, splices,
    consistent edits, seeded multi-point mutations); the empty list (control) comes first"""
    enc = base["encoding"]
    cfg = msgcodec.effective_cfg(base["config"])
    hexb = base.get("hex_bitmap", False)
    sp = reading.spans
    out = [[]]
    if directed:
        out.extend(faults.directed_substitutions(sp, enc, clean, hexb, all_values=(tier == "thorough")))
    out.extend(faults.numeral_faults(sp, enc))
    out.extend(faults.typed_token_faults(sp, enc))
    out.extend(faults.pds_tag_faults(sp, enc))
    out.extend(faults.pds_header_faults(sp, enc))
    if hexb:
        out.extend(faults.hex_bitmap_pair_faults(sp))
    out.extend(faults.splice_faults(clean, sp, enc))
    out.extend(faults.consistent_edits(clean, sp, enc, cfg, hexb, rng))
    nrand = 40 if tier == "quick" else 200
    for _ in range(nrand):
        out.append(faults.random_faults(rng, len(clean)))
    # truncations / extensions at every structural boundary
    marks = set([0, 4, sp.get("data0", 20), len(clean)])
    for el in sp["elems"]:
        if el["prefix"]:
            marks.update(el["prefix"])
        marks.update(el["data"])
    for mk in sorted(marks):
        for d in (-1, 0, 1):
            if 0 <= mk + d < len(clean):
                out.append([{"kind": "truncate", "at": mk + d, "cls": "truncate_at_boundary"}])
    out.append([{"kind": "extend", "hex": "20", "cls": "extend_one"}])
    out.append([{"kind": "extend", "hex": "0000", "cls": "extend_two"}])
    # line-ending and filler bytes appended to the message (leftover bytes must be refused) ...
    for hx in ("0a", "0d", "0d0a", "00", "40", "ff", "1a"):
        out.append([{"kind": "extend", "hex": hx, "cls": "extend_line_ending_or_filler"}])
    # ... and the same bytes as the LAST content byte of the last element (still well-framed when that
    # element is untyped text or ICC data: a decoder that trims its input must not refuse or shorten it)
    if sp["elems"]:
        last = sp["elems"][-1]
        d0, d1 = last["data"]
        if d1 > d0 and d1 == len(clean):
            for v in (0x0A, 0x0D, 0x20, 0x00, 0x40, 0x25, 0x15):
                if clean[d1 - 1] != v:
                    out.append([{"kind": "substitute", "off": d1 - 1, "val": v, "cls": "last_content_byte"}])
    return out


def clean_and_reading(base):
    clean = corrupt.clean_message_bytes(base)
    cfg = msgcodec.effective_cfg(base["config"])
    rd = refiso.ref_read(clean, cfg, base["encoding"], base.get("hex_bitmap", False))
    return clean, rd, cfg
