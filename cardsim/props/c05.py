"""C05 - 1014 unblocking returns the exact payload stream for every read sequence; the one-shot
validating function inverts blocking and refuses anything that is not whole, correctly trailed blocks.

Simulation: read histories on the stateful Unblock1014 over a SimFile holding a blocked image
(produced by the reference blocker, or by the real blockers), a reference stream model checked read
by read; storage faults (every truncation length, every trailer-byte substitution) against
unblock_1014.
"""
import hashlib
import io

from .. import refmodel, shrink, sut, workload
from ..kernel import Streams, sub_seed, EventLog, sig64, canon, posbytes, mk_bytes
from ..simfs import SimFile, apply_fault

ID = "C05"
LEVEL = "exploration"
BUDGET_S = {"quick": 0, "thorough": 600}
RULE = ("case = one read history on Unblock1014 (each history ends with a read with no size), or one faulted image "
        "handed to unblock_1014, or one VBS stream read blocked and unblocked. Directed: every residue r in 0..1011 of "
        "bytes already delivered, reached by two chunkings ([r]; [1012, r] or 4-byte reads), crossed with the next "
        "read size (quick: ~120 boundary sizes; thorough: every size 1..2024); validate: every truncation length "
        "0..1014*B and every value of every trailer byte for B in 1..4 and 65 (130 too in thorough); seeded: 1..40 reads "
        "incl. no-size reads on 1..8 (7%: up to 140) block images from three producers; stream: 70..300 block images "
        "consumed in equal steps through one unblocker; bigreads: reads of 3..9 blocks ending on / next to a payload edge. distinct = distinct (producer, blocks, ((residue, size|all), ...)) "
        "or (fault kind, B, offset, value); non-trivial = a read crosses a payload edge / the fault changes the image")
COMPONENTS = {
    "real": ["cardutil.mciipm.Unblock1014", "cardutil.mciipm.unblock_1014", "cardutil.mciipm.VbsReader(blocked=True)",
             "cardutil.mciipm.Block1014 / block_1014 (as image producers in a share of runs)"],
    "stub": ["SimFile", "disk fault applier (truncate, substitute)"],
    "reference": ["refmodel.block", "refmodel.payload", "refmodel.vbs_layout"],
}
ASSUMPTIONS = ["read(0) passed explicitly is not judged (the property is silent; file convention and code differ)",
               "'a read with no size' is exercised as read() with no argument",
               "the underlying file honours the BufferedIOBase contract (no short reads mid-file)"]


def make_image(producer, length):
    data = posbytes(0, length)
    if producer == "ref":
        return refmodel.block(data)
    m = sut.load()
    if producer == "block_1014":
        out = io.BytesIO()
        m["mciipm"].block_1014(io.BytesIO(data), out)
        return out.getvalue()
    f = io.BytesIO()
    b = m["mciipm"].Block1014(f)
    b.write(data)
    b.finalise()
    return f.getvalue()


def run_reads(image, reads, log=None):
    """executes a read history under a wall-clock backstop"""
    from ..steps import WallLimit, StepBudgetExceeded, hang_seen, too_many_hangs
    if too_many_hangs():
        return [(reads[0] if reads else None, ("error", "DidNotTerminate", "not executed: three earlier histories did not terminate"))], SimFile(image)
    try:
        with WallLimit(30.0):
            return _run_reads(image, reads, log)
    except StepBudgetExceeded as ex:
        hang_seen()
        return [(reads[0] if reads else None, ("error", "DidNotTerminate", str(ex)[:100]))], SimFile(image)


def _run_reads(image, reads, log=None):
    """executes a read history; returns list of (size, returned bytes | ('error', type, text))"""
    m = sut.load()
    f = SimFile(image, log=log, name="disk")
    u = m["mciipm"].Unblock1014(f)
    out = []
    for n in reads:
        if log is not None:
            log.emit("unblocker", "read", n)
        try:
            if n is None:
                got = u.read()
            elif n == "None":
                got = u.read(None)     # the other way of asking with no size
            else:
                got = u.read(n)
        except Exception as ex:
            out.append((n, ("error", type(ex).__name__, str(ex)[:100])))
            break
        out.append((n, got))
    return out, f


def judge_reads(image, reads, log=None):
    stream = refmodel.payload(image)
    res, f = run_reads(image, reads, log)
    pos = 0
    fails = []
    for i, (n, got) in enumerate(res):
        if n == "None":
            n = None
        want = stream[pos:] if n is None else stream[pos:pos + n]
        if isinstance(got, tuple):
            fails.append({"oracle": "C05.read.no_exception", "detail": f"read #{i} ({n}) raised {got[1:]}",
                          "sig": f"C05.read.no_exception|{got[1]}"})
            break
        if not isinstance(got, (bytes, bytearray)) or bytes(got) != want:
            kind = "nosize" if n is None else "sized"
            glen = len(got) if hasattr(got, "__len__") else -1
            fails.append({"oracle": f"C05.read.{kind}_returns_exact_slice",
                          "detail": f"read #{i} of size {n} at stream offset {pos} (stream {len(stream)} bytes) returned {glen} bytes, "
                                    f"expected {len(want)}" + ("" if glen != len(want) else " (content differs)"),
                          "sig": f"C05.read.{kind}_returns_exact_slice"})
            break
        pos += len(want)
    return fails, f


def run_validate(image):
    from ..steps import WallLimit, StepBudgetExceeded, hang_seen, too_many_hangs
    m = sut.load()
    out = io.BytesIO()
    if too_many_hangs():
        return ("foreign", "DidNotTerminate", "not executed: three earlier runs did not terminate")
    try:
        with WallLimit(20.0):
            m["mciipm"].unblock_1014(SimFile(image, name="disk"), out)
        return ("ok", out.getvalue())
    except StepBudgetExceeded as ex:
        hang_seen()
        return ("foreign", "DidNotTerminate", str(ex)[:100])
    except m["MciIpmDataError"] as ex:
        return ("MciIpmDataError", str(ex)[:100])
    except Exception as ex:
        return ("foreign", type(ex).__name__, str(ex)[:100])


_VBASE = {}


def judge_validate(scn):
    """scn: blocks, payload_len, fault (None | truncate | substitute); content 'pos' (default) or 'x40'
    (payload made of 0x40 bytes, indistinguishable from trailers and fill)"""
    key = (scn["payload_len"], scn.get("content", "pos"))
    base = _VBASE.get(key)
    if base is None:
        data = posbytes(0, scn["payload_len"]) if key[1] == "pos" else b"\x40" * scn["payload_len"]
        if len(_VBASE) > 8:
            _VBASE.clear()
        base = _VBASE[key] = refmodel.block(data)
    fault = scn.get("fault")
    image = apply_fault(base, fault) if fault else base
    for f2 in scn.get("faults2") or []:
        image = apply_fault(image, f2)
        fault = scn["faults2"]
    res = run_validate(image)
    fails = []
    if res[0] == "foreign":
        fails.append({"oracle": "C05.validate.only_library_error", "detail": f"unblock_1014 raised {res[1:]} for fault {fault}",
                      "sig": f"C05.validate.only_library_error|{res[1]}"})
        return fails
    wellformed = (len(image) % 1014 == 0 and
                  all(image[i + 1012:i + 1014] == b"\x40\x40" for i in range(0, len(image), 1014)))
    if wellformed:
        want = refmodel.payload(image)
        if res[0] != "ok" or res[1] != want:
            fails.append({"oracle": "C05.validate.accepts_and_inverts_wellformed",
                          "detail": f"image of {len(image)} bytes (whole blocks, good trailers), fault {fault}: result {res[0]}, "
                                    f"{len(res[1]) if res[0] == 'ok' else res[1]} vs expected {len(want)} payload bytes",
                          "sig": f"C05.validate.accepts_and_inverts_wellformed|{res[0]}"})
    else:
        if res[0] == "ok":
            why = "not a whole number of blocks" if len(image) % 1014 else "bad block trailer"
            fails.append({"oracle": "C05.validate.refuses_malformed",
                          "detail": f"image of {len(image)} bytes ({why}; fault {fault}) was accepted",
                          "sig": f"C05.validate.refuses_malformed|{'size' if len(image) % 1014 else 'trailer'}"})
    return fails


def judge_inverse(length):
    """unblock_1014(block_1014(x)) == x + 0x40 fill only"""
    m = sut.load()
    data = posbytes(0, length)
    mid, out = io.BytesIO(), io.BytesIO()
    try:
        m["mciipm"].block_1014(io.BytesIO(data), mid)
        m["mciipm"].unblock_1014(io.BytesIO(mid.getvalue()), out)
    except Exception as ex:
        return [{"oracle": "C05.validate.inverts_block_1014", "detail": f"raised {type(ex).__name__}: {ex} for {length} bytes",
                 "sig": f"C05.validate.inverts_block_1014|{type(ex).__name__}"}]
    got = out.getvalue()
    if got[:length] != data or any(c != 0x40 for c in got[length:]):
        return [{"oracle": "C05.validate.inverts_block_1014", "detail": f"unblock(block(x)) for {length} bytes gives {len(got)} bytes that are not x + 0x40 fill",
                 "sig": "C05.validate.inverts_block_1014"}]
    return []


def judge_reader_equiv(scn):
    """VbsReader(blocked=True) on block(x) yields the same records as VbsReader on x.  Only the comparison of
    the two readings is C05's business: if the record reader refuses x itself (C03's ground), both readings
    must merely agree."""
    m = sut.load()
    recs = [mk_bytes(s) for s in scn["records"]]
    x = refmodel.vbs_layout(recs)

    def reading(f, blocked):
        out = []
        try:
            for r in m["mciipm"].VbsReader(f, blocked=blocked):
                out.append(r)
            return out, "stop"
        except m["MciIpmDataError"]:
            return out, "MciIpmDataError"
        except Exception as ex:
            return out, "foreign:" + type(ex).__name__

    with sut.knob(scn.get("max", 6000)):
        a, ea = reading(SimFile(x), False)
        b, eb = reading(SimFile(refmodel.block(x)), True)
    if a != b or ea != eb:
        return [{"oracle": "C05.reader.blocked_equals_unblocked",
                 "detail": f"{len(recs)} records: unblocked read gave {len(a)} then {ea}, blocked read gave {len(b)} then {eb}",
                 "sig": f"C05.reader.blocked_equals_unblocked|{ea}|{eb}"}]
    return []


def judge_scenario(scn):
    k = scn["kind"]
    if k == "unblocker_history":
        return judge_reads(make_image(scn["producer"], scn["payload_len"]), scn["reads"])[0]
    if k == "unblock_validate":
        return judge_validate(scn)
    if k == "unblock_inverse":
        return judge_inverse(scn["payload_len"])
    if k == "reader_equiv":
        return judge_reader_equiv(scn)
    raise ValueError(k)


# ---------------------------------------------------------------------------------------------

def quick_sizes(r):
    s = set([1, 2, 3, 4, 5, 8])
    comp = 1012 - r
    for base in (comp, comp + 1012, 1012, 2024):
        for d in range(-3, 4):
            s.add(base + d)
    s.update(range(1006, 1019))
    s.update(range(2018, 2025))
    s.update(range(9, 2025, 29))
    return sorted(x for x in s if 1 <= x <= 2024)


def pre_chunkings(r):
    out = []
    if r > 0:
        out.append([r])
    if r % 2 == 0:
        out.append(([1012, r] if r else [1012]))
    else:
        out.append([4] * (r // 4) + ([r % 4] if r % 4 else []))
    return out


def plan(tier, seed, wave):
    tasks = []
    if wave == 0:
        step = 8 if tier == "thorough" else 32
        for lo in range(0, 1012, step):
            tasks.append({"fam": "sweep", "lo": lo, "hi": min(1012, lo + step), "tier": tier})
        for B in (1, 2, 3, 4, 65):
            tasks.append({"fam": "validate", "blocks": B, "tier": tier})
        if tier == "thorough":
            tasks.append({"fam": "validate", "blocks": 130, "tier": tier})
        tasks.append({"fam": "inverse", "tier": tier})
        for B in ((70, 140, 4200) if tier == "quick" else (66, 70, 100, 140, 300, 4200, 9000)):
            tasks.append({"fam": "stream", "blocks": B, "tier": tier})
        tasks.append({"fam": "bigreads", "tier": tier})
    if tier == "quick":
        if wave > 0:
            return []
        n, chunk = 12000, 500
    else:
        n, chunk = 120000, 2500
    for j in range(0, n, chunk):
        tasks.append({"fam": "seeded", "seed": seed, "start": wave * n + j, "n": chunk})
    return tasks


def gen_seeded(seed_i):
    st = Streams(seed_i)
    kn, wl = st["knobs"], st["workload"]
    if kn.random() < 0.2:
        maxlen = workload.pick_knob(kn)
        return {"kind": "reader_equiv", "max": maxlen, "records": workload.gen_records(wl, maxlen, 12)}
    blocks = kn.randint(1, 8) if kn.random() < 0.93 else kn.randint(9, 140)
    length = max(0, blocks * 1012 - kn.choice([0, 0, 1, 2, 500, 1011]))
    reads = workload.gen_read_sizes(wl)
    if kn.random() < 0.3:
        reads = ["None" if r is None and kn.random() < 0.5 else r for r in reads]
    if blocks >= 66 and kn.random() < 0.5:
        reads = [kn.choice([65535, 65536, 65537, 1012 * 64, 1012 * 65, 1014 * 64])] + reads
    return {"kind": "unblocker_history", "producer": kn.choice(["ref", "ref", "block1014", "block_1014"]),
            "payload_len": length, "reads": reads}


def _fail(part, fl, scn):
    if len(part["fails"]) < 8:
        fl["scenario"] = scn
        part["fails"].append(fl)


def run_task(task):
    from ..engine import new_partial
    part = new_partial()
    c = part["counters"]
    if task["fam"] == "sweep":
        images = {}
        for r in range(task["lo"], task["hi"]):
            sizes = range(1, 2025) if task["tier"] == "thorough" else quick_sizes(r)
            blocks = 3 + (r % 2)
            length = blocks * 1012 - (r % 3)
            if length not in images:
                images[length] = make_image("ref", length)
            image = images[length]
            for pre in pre_chunkings(r):
                for n in sizes:
                    reads = pre + [n, None]
                    fails, f = judge_reads(image, reads)
                    part["evals"] += 1
                    part["events"] += f.n_ops
                    if r + n >= 1012:
                        part["nontrivial"] += 1
                    if r + n > blocks * 1012:
                        c["probe:read_runs_past_end_of_stream"] += 1
                    for fl in fails:
                        _fail(part, fl, {"kind": "unblocker_history", "producer": "ref", "payload_len": length, "reads": reads})
        part["runs"] += 1
        if task["lo"] == 0:
            part["samples"].append({"kind": "unblocker_history", "producer": "ref", "payload_len": 3036, "reads": [1012, 0 + 1011, None]})
    elif task["fam"] == "validate":
        B = task["blocks"]
        plen = B * 1012 - 7
        total = B * 1014
        for content in (("pos", "x40") if B <= 4 else ("pos",)):
            for k in range(0, total + 1):
                scn = {"kind": "unblock_validate", "blocks": B, "payload_len": plen, "content": content,
                       "fault": {"kind": "truncate", "at": k}}
                fails = judge_validate(scn)
                part["evals"] += 1
                c["fault:truncate"] += 1
                if 0 < k < total:
                    part["nontrivial"] += 1
                for fl in fails:
                    _fail(part, fl, scn)
        for b in range(B):
            for off in (b * 1014 + 1012, b * 1014 + 1013):
                for val in (range(256) if B <= 4 else (0x00, 0x41, 0x40, 0xFF)):
                    scn = {"kind": "unblock_validate", "blocks": B, "payload_len": plen,
                           "fault": {"kind": "substitute", "off": off, "val": val}}
                    fails = judge_validate(scn)
                    part["evals"] += 1
                    if val != 0x40:
                        part["nontrivial"] += 1
                        c["fault:substitute_trailer_byte"] += 1
                    for fl in fails:
                        _fail(part, fl, scn)
        # both trailer bytes replaced together (a "translated" trailer such as 20 20, 00 00, F0 F0 ...)
        for b in range(min(B, 4)):
            for val in range(256):
                for v2 in ((val,) if val != 0x40 else (0x41,)):
                    scn = {"kind": "unblock_validate", "blocks": B, "payload_len": plen,
                           "faults2": [{"kind": "substitute", "off": b * 1014 + 1012, "val": val},
                                       {"kind": "substitute", "off": b * 1014 + 1013, "val": v2}]}
                    fails = judge_validate(scn)
                    part["evals"] += 1
                    part["nontrivial"] += 1
                    c["fault:substitute_both_trailer_bytes"] += 1
                    for fl in fails:
                        _fail(part, fl, scn)
        part["runs"] += 1
        part["samples"].append({"kind": "unblock_validate", "blocks": B, "payload_len": plen,
                                "fault": {"kind": "substitute", "off": 1012, "val": 0}})
    elif task["fam"] == "stream":
        # a reader consuming a long file in equal steps (what the record reader does): > 64 blocks
        # delivered through ONE unblocker, then a read with no size
        B = task["blocks"]
        length = B * 1012 - 5
        image = make_image("ref", length)
        for step in ((4, 500, 1012, 1013, 3000, 6000) if B <= 300 else (1012, 6000)):
            nreads = (B * 1012) // step + 2
            reads = [step] * nreads + [None]
            fails, f = judge_reads(image, reads)
            part["evals"] += 1
            part["events"] += f.n_ops
            part["nontrivial"] += 1
            c["probe:more_than_64_blocks_through_one_unblocker"] += 1
            for fl in fails:
                _fail(part, fl, {"kind": "unblocker_history", "producer": "ref", "payload_len": length, "reads": reads})
            # same, with a no-size read in the middle
            half = nreads // 2
            reads2 = [step] * half + [None, step, None]
            fails, f = judge_reads(image, reads2)
            part["evals"] += 1
            part["nontrivial"] += 1
            for fl in fails:
                _fail(part, fl, {"kind": "unblocker_history", "producer": "ref", "payload_len": length, "reads": reads2})
        part["runs"] += 1
    elif task["fam"] == "bigreads":
        # reads of 3..9 blocks that end exactly on / next to a payload edge, from every residue class
        image = make_image("ref", 12 * 1012 - 3)
        residues = range(0, 1012) if task["tier"] == "thorough" else list(range(0, 1012, 37)) + [1, 4, 1008, 1011]
        for r in residues:
            for k in range(3, 10):
                for d in (-1, 0, 1):
                    n = k * 1012 - r + d
                    if n < 1:
                        continue
                    for pre in (([r] if r else []), ([4] * (r // 4) + ([r % 4] if r % 4 else []))):
                        reads = pre + [n, 10, None]
                        fails, f = judge_reads(image, reads)
                        part["evals"] += 1
                        part["events"] += f.n_ops
                        part["nontrivial"] += 1
                        if d == 0:
                            c["probe:multi_block_read_ending_exactly_on_payload_edge"] += 1
                        for fl in fails:
                            _fail(part, fl, {"kind": "unblocker_history", "producer": "ref", "payload_len": 12 * 1012 - 3, "reads": reads})
        part["runs"] += 1
    elif task["fam"] == "inverse":
        lens = list(range(0, 3100)) if task["tier"] == "thorough" else sorted(set(list(range(0, 40)) + list(range(990, 1040)) + list(range(2000, 2050)) + list(range(3020, 3050))))
        for ln in lens:
            fails = judge_inverse(ln)
            part["evals"] += 1
            part["nontrivial"] += 1 if ln else 0
            for fl in fails:
                _fail(part, fl, {"kind": "unblock_inverse", "payload_len": ln})
        part["runs"] += 1
    else:
        for i in range(task["start"], task["start"] + task["n"]):
            scn = gen_seeded(sub_seed(task["seed"], ID, i))
            part["evals"] += 1
            part["runs"] += 1
            if scn["kind"] == "reader_equiv":
                fails = judge_reader_equiv(scn)
                c["knob:reader_equiv"] += 1
                part["sigs"].add(sig64("C05", canon(scn)))
            else:
                log = EventLog() if i < 16 else None
                image = make_image(scn["producer"], scn["payload_len"])
                fails, f = judge_reads(image, scn["reads"], log=log)
                part["events"] += f.n_ops
                c[f"knob:producer={scn['producer']}"] += 1
                if any(n is None or n == "None" for n in scn["reads"]):
                    c["probe:nosize_read_in_history"] += 1
                part["sigs"].add(sig64("C05", scn["producer"], scn["payload_len"], tuple(scn["reads"])))
                if log is not None:
                    part["digests"].append(hashlib.sha256((canon(scn) + log.digest()).encode()).hexdigest()[:16])
            for fl in fails:
                _fail(part, fl, scn)
            if len(part["samples"]) < 1:
                part["samples"].append(scn)
    return part


def digest_slice(seed):
    h = hashlib.sha256()
    for i in range(16):
        scn = gen_seeded(sub_seed(seed, ID, i))
        if scn["kind"] != "unblocker_history":
            h.update(canon(scn).encode())
            continue
        log = EventLog()
        fails, f = judge_reads(make_image(scn["producer"], scn["payload_len"]), scn["reads"], log=log)
        h.update((canon(scn) + log.digest() + str(len(fails))).encode())
    return h.hexdigest()[:16]


def minimise(scn, oracle):
    dl = shrink.Deadline(60)

    def ok(c):
        try:
            return any(x["oracle"] == oracle for x in judge_scenario(c))
        except Exception:
            return False

    if scn["kind"] == "unblocker_history":
        cur = dict(scn)
        if cur["producer"] != "ref" and ok(dict(cur, producer="ref")):
            cur["producer"] = "ref"
        reads = shrink.ddmin(cur["reads"], lambda r: ok(dict(cur, reads=r)), dl)
        for i in range(len(reads)):
            if reads[i] is None or reads[i] == "None" or dl.over():
                continue

            def t(n, i=i):
                r = list(reads)
                r[i] = n
                return ok(dict(cur, reads=r))
            reads[i] = shrink.shrink_int(reads[i], 1, t, dl)
        cur["reads"] = reads
        cur["payload_len"] = shrink.shrink_int(cur["payload_len"], 0, lambda n: ok(dict(cur, payload_len=n)), dl)
        return cur
    if scn["kind"] == "reader_equiv":
        from . import common
        return common.minimise_items(dict(scn, level="vbs"), oracle, judge_scenario)
    return scn
