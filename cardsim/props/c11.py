"""C11 - closing a writer finalises the file exactly once, however close is reached.

Simulation: operation histories `enter? ; write* ; F1..Fm` (F in {close(), context-manager exit}) on
VbsWriter / IpmWriter, blocked and not, over four storage kinds; the image is snapshotted after
every finalisation and read back by a fresh reader.  Finalisation sequences are enumerated.
"""
import hashlib

from .. import pipeline, refmodel, workload, msggen, msgcodec
from ..kernel import Streams, sub_seed, EventLog, sig64, canon
from . import common

ID = "C11"
LEVEL = "fault_enumeration"
BUDGET_S = {"quick": 0, "thorough": 600}
RULE = ("case = one history write* ; F1..Fm. All finalisation sequences over {close(), leaving the with-block entered "
        "before the writes, a with-block entered on the used writer and left} - each way of leaving being normal, with an "
        "Exception in flight or with a non-Exception BaseException in flight (rotated) - with m <= 4 (quick; 124 sequences; real-file storages run every third) "
        "or m <= 5 (thorough; 236), an exit needing a prior enter and occurring at "
        "most once, crossed with "
        "writer type {VbsWriter, IpmWriter} x {VBS, 1014} x storage {SimFile, BytesIO, real file 'wb', real file 'w+b'} "
        "x seeded record lists (0..8 records, block-edge lengths) / message lists. distinct = distinct (writer, blocked, "
        "storage, record-list digest, finalisation sequence); non-trivial = at least two finalisations")
COMPONENTS = {
    "real": ["cardutil.mciipm.VbsWriter", "cardutil.mciipm.IpmWriter", "cardutil.mciipm.Block1014",
             "cardutil.mciipm.VbsReader / IpmReader (read-back)", "io.BytesIO", "OS files opened 'wb' and 'w+b'"],
    "stub": ["SimFile (storage kind sim)"],
    "reference": ["byte-identity of successive snapshots", "refmodel.vbs_layout (expected first snapshot)"],
}
ASSUMPTIONS = ["redundant finalisation is the injected fault (a second close(), exit after close(), ...); writes after a "
               "finalisation are outside the property",
               "the real-file kinds run without crash faults (no deterministic way to tear a real write here)"]

STORAGES = ["sim", "bytesio", "realfile", "realfile+", "realfile_ab", "realfile_a+b"]
CROWDS = [1, 5, 127, 128, 129, 300, 1100]


EXITS = ("exit", "exit!", "exit!!")
WITHS = ("with", "with!", "with!!")


def fin_sequences(mmax):
    """all sequences of 1..mmax finalisations over
         close                      explicit close()
         exit / exit! / exit!!      leaving the with-block that was entered BEFORE the writes (at most once):
                                    normally, with an Exception in flight, with a non-Exception BaseException
         with / with! / with!!      a with-block entered on the (already used) writer at this point and left
                                    (`w.close(); with w: pass`, two successive with-blocks, ...)
    The three ways of leaving are rotated over the positions instead of multiplied."""
    out = []
    for m in range(1, mmax + 1):
        for mask in range(2 ** m):                       # close / with-block at every position
            base = [("w" if mask >> i & 1 else "c") for i in range(m)]
            out.append(base)
            for i in range(m):                           # ... and the initial block's exit at one position
                s = list(base)
                s[i] = "e"
                out.append(s)
    seqs = []
    for n, base in enumerate(out):
        seq = []
        for i, t in enumerate(base):
            if t == "c":
                seq.append("close")
            elif t == "e":
                seq.append(EXITS[(n + i) % 3])
            else:
                seq.append(WITHS[(n + i) % 3])
        if seq not in seqs:
            seqs.append(seq)
    return seqs


def expand_ops(seq, writes):
    """writer_ops for a finalisation sequence"""
    ops = (["enter"] if any(x in EXITS for x in seq) else []) + list(writes)
    for t in seq:
        if t in WITHS:
            ops += ["enter", EXITS[WITHS.index(t)]]
        else:
            ops.append(t)
    return ops


def judge(scn, log=None):
    items = pipeline.scenario_items(scn)
    wr = pipeline.write_phase(scn, log=log, items=items)
    tag = f"{scn['level']}|blk={int(scn['blocked'])}"
    wops = scn["writer_ops"]
    first_fin = next((i for i, o in enumerate(wops) if o == "close" or o.startswith("exit") or o.startswith("crowd:")), len(wops))
    allf = [o for i, o in enumerate(wops) if o in ("close", "exit", "exit!", "exit!!") or o.startswith("crowd:")
            or (o == "enter" and i > first_fin)]
    fins = [o for o in allf if o == "close" or o.startswith("exit")]
    fails = []
    if wr.error:
        # a write op raising on a well-formed item is C03 / C06's business; nothing to judge here
        return fails, wr
    if wr.fin_errors:
        fails.append({"oracle": "C11.finalisation.no_exception",
                      "detail": f"finalisation raised {wr.fin_errors[0]} in sequence {fins}",
                      "sig": f"C11.finalisation.no_exception|{tag}|{wr.fin_errors[0][1]}"})
    if not wr.snapshots:
        return fails, wr
    first = wr.snapshots[0]
    # read back at the record level (for IpmWriter: the records its encoder produced), so that a decoding
    # defect - C06's business - cannot raise a finalisation alarm
    rscn = dict(scn, reader="class", level="vbs")
    rd = pipeline.read_phase(rscn, first)
    try:
        expected = items if scn["level"] == "vbs" else pipeline.asked_records(scn, items)
    except Exception:
        return fails, wr
    ok_first = rd.end == "stop" and rd.items == expected
    if not ok_first:
        fails.append({"oracle": "C11.first_finalisation_reads_back",
                      "detail": f"after the first finalisation ({fins[0]}) the file reads back as {len(rd.items)} records then {rd.end}; {len(items)} were written",
                      "sig": f"C11.first_finalisation_reads_back|{tag}"})
    for i, snap in enumerate(wr.snapshots[1:], start=1):
        if snap != first:
            rd2 = pipeline.read_phase(rscn, snap)
            d = next((j for j in range(min(len(snap), len(first))) if snap[j] != first[j]), min(len(snap), len(first)))
            fails.append({"oracle": "C11.later_finalisation_leaves_file_unchanged",
                          "detail": f"finalisation #{i + 1} ({fins[i]}) of {allf} changed the file (first difference at byte {d}, "
                                    f"{len(first)} -> {len(snap)} bytes); it now reads back as {len(rd2.items)} records then {rd2.end}, {len(items)} were written",
                          "sig": f"C11.later_finalisation_leaves_file_unchanged|{tag}"})
            break
    return fails, wr


def _ipm_equal(originals, got, scn):
    from ..msgcmp import compare_messages
    if got is None or len(got) != len(originals):
        return False
    cfg = msgcodec.effective_cfg(scn.get("config", "packaged"))
    return all(not compare_messages(o, g, cfg) for o, g in zip(originals, got))


def gen_lists(seed, tier):
    """seeded record lists / message lists shared by all enumerated histories of this run"""
    st = Streams(sub_seed(seed, ID, "lists"))
    wl = st["workload"]
    n = 10 if tier == "quick" else 40
    vbs = [[]]
    # directed lists: the terminator lands on / across a payload edge (4 + len in 1008..1011 mod 1012),
    # records ending in NUL bytes (look like a terminator), all-0x40 records (look like fill)
    for L in (1004, 1005, 1007, 2016, 2019):
        vbs.append([{"pos": [3, L]}])
    vbs.append([{"pos": [0, 500]}, {"pos": [7, 496]}])                 # 504 + 500 = 1004 -> terminator at 1008..1011
    vbs.append([{"cat": [{"pos": [0, 20]}, {"fill": [0, 6]}]}])          # ends in six NULs
    vbs.append([{"fill": [0, 4]}, {"fill": [0, 9]}])
    vbs.append([{"fill": [0x40, 1012]}, {"fill": [0x40, 3]}])
    for _ in range(n - 1):
        k = wl.randint(1, 8)
        recs = []
        for _ in range(k):
            ln = wl.choice([1, 3, 4, 1003, 1004, 1008, 1012, 1016, 2020, wl.randint(1, 300), wl.randint(1, 3000)])
            recs.append({"pos": [wl.randint(0, 5000), ln]})
        vbs.append(recs)
    ipm = [("latin_1", "packaged", [])]
    for j in range(max(3, n // 3)):
        enc, cfg, msgs = msggen.gen_file_messages(Streams(sub_seed(seed, ID, "ipm", j)), nmax=6)
        ipm.append((enc, cfg, msgs))
    return vbs, ipm


def build(level, blocked, storage, lst, seq, many=False):
    scn = {"kind": "vbs_pipeline", "level": level, "blocked": blocked, "storage": storage, "reader": "class",
           "knobs": {"MAX_VBS_RECORD_LENGTH": 6000}}
    if level == "vbs":
        scn["records"] = lst
        n = len(lst)
    else:
        scn["encoding"], scn["config"], scn["messages"] = lst
        n = len(lst[2])
    writes = [f"write:{i}" for i in range(n)]
    if many and n:
        writes = [f"write_many:0:{n}"]
    # (a "crowd:K" entry between finalisations creates, writes and finalises K other writers)
    scn["writer_ops"] = expand_ops(seq, writes)
    scn["fin_tokens"] = list(seq)
    return scn


def plan(tier, seed, wave):
    if wave > 0:
        return []  # the enumeration is finite; one wave covers it
    tasks = []
    mmax = 4 if tier == "quick" else 5
    for level in ("vbs", "ipm"):
        for blocked in (False, True):
            for storage in STORAGES:
                tasks.append({"seed": seed, "tier": tier, "level": level, "blocked": blocked, "storage": storage, "mmax": mmax})
    return tasks


def run_task(task):
    from ..engine import new_partial
    part = new_partial()
    vbs, ipm = gen_lists(task["seed"], task["tier"])
    lists = vbs if task["level"] == "vbs" else ipm
    c = part["counters"]
    for li, lst in enumerate(lists):
        for si, seq in enumerate(fin_sequences(task["mmax"])):
            if task["tier"] == "quick" and task["storage"].startswith("realfile") and (si + li) % 3:
                continue
            scn = build(task["level"], task["blocked"], task["storage"], lst, seq, many=(li % 3 == 2))
            want_log = task["storage"] == "sim" and li < 2
            log = EventLog() if want_log else None
            fails, wr = judge(scn, log=log)
            part["evals"] += 1
            part["runs"] += 1
            part["events"] += (log.seq if log else 0) + wr.io_ops
            c[f"storage:{task['storage']}"] += 1
            c["fault:refinalise"] += max(0, len(seq) - 1)
            if wr.nonprefix:
                c["probe:a_finalisation_overwrote_bytes"] += 1
            if len(seq) >= 2:
                part["nontrivial"] += 1
            if log is not None:
                part["digests"].append(hashlib.sha256((canon(scn) + log.digest()).encode()).hexdigest()[:16])
            for fl in fails:
                if len(part["fails"]) < 4:
                    fl["scenario"] = scn
                    part["fails"].append(fl)
    # other writers finalised in between (a process-wide cache of "already finalised" writers would
    # evict the victim): crowd sizes around typical cache capacities
    if task["storage"] in ("sim", "bytesio", "realfile+") and lists:
        for li, lst in enumerate(lists[:3]):
            for K in CROWDS:
                for seq in (["close", f"crowd:{K}", "close"], ["close", f"crowd:{K}", "exit"], ["exit", f"crowd:{K}", "close"]):
                    scn = build(task["level"], task["blocked"], task["storage"], lst, seq)
                    fails, wr = judge(scn)
                    part["evals"] += 1
                    part["runs"] += 1
                    part["nontrivial"] += 1
                    c["fault:refinalise_after_other_writers"] += 1
                    c["probe:crowd_of_%d_writers_between_finalisations" % K] += 1
                    for fl in fails:
                        if len(part["fails"]) < 4:
                            fl["scenario"] = scn
                            part["fails"].append(fl)
    if lists:
        part["samples"].append(common_brief(build(task["level"], task["blocked"], task["storage"], lists[-1], ["exit", "close"])))
    return part


def common_brief(scn):
    from .c09 import _brief
    return _brief(scn)


def digest_slice(seed):
    vbs, ipm = gen_lists(seed, "quick")
    h = hashlib.sha256()
    for lst in vbs[:3]:
        for seq in fin_sequences(3):
            scn = build("vbs", True, "sim", lst, seq)
            log = EventLog()
            fails, wr = judge(scn, log=log)
            h.update((canon(scn) + log.digest() + str(len(fails))).encode())
    for lst in ipm[:2]:
        scn = build("ipm", False, "sim", lst, ["close", "exit"])
        log = EventLog()
        fails, wr = judge(scn, log=log)
        h.update((canon(scn) + log.digest() + str(len(fails))).encode())
    return h.hexdigest()[:16]


def judge_scenario(scn):
    return judge(scn)[0]


def minimise(scn, oracle):
    """fewer records (renumbering the write ops), shorter finalisation sequence, simpler storage"""
    from .. import shrink
    dl = shrink.Deadline(60)

    def ok(c):
        try:
            return any(f["oracle"] == oracle for f in judge_scenario(c))
        except Exception:
            return False

    key = "records" if scn["level"] == "vbs" else "messages"
    fins = list(scn.get("fin_tokens") or [o for o in scn["writer_ops"] if o in ("close",) + EXITS or o.startswith("crowd:")])

    def rebuild(items, fins, base):
        c = dict(base)
        c[key] = items
        c["writer_ops"] = expand_ops(fins, [f"write:{i}" for i in range(len(items))])
        c["fin_tokens"] = list(fins)
        return c

    cur = dict(scn)
    for alt in ({"storage": "sim"}, {"blocked": False}):
        cand = dict(cur, **alt)
        if cand != cur and ok(cand):
            cur = cand
    items = shrink.ddmin(cur[key], lambda l: ok(rebuild(l, fins, cur)), dl)
    fins = shrink.ddmin(fins, lambda f: len(f) >= 1 and ok(rebuild(items, f, cur)), dl, min_len=1)
    cur = rebuild(items, fins, cur)
    if key == "records":
        from ..kernel import spec_len
        for i in range(len(items)):
            def t(n, i=i):
                c = list(cur[key])
                c[i] = {"pos": [0, n]}
                return ok(rebuild(c, fins, cur))
            n0 = spec_len(cur[key][i])
            if t(n0):
                n = shrink.shrink_int(n0, 1, t, dl)
                c = list(cur[key])
                c[i] = {"pos": [0, n]}
                cur = rebuild(c, fins, cur)
    else:
        for i in range(len(items)):
            msg = cur[key][i]
            keys = [k for k in msg if k != "MTI"]

            def tk(ks, i=i, msg=msg):
                c = list(cur[key])
                c[i] = {k: v for k, v in msg.items() if k == "MTI" or k in ks}
                return ok(rebuild(c, fins, cur))
            ks = shrink.ddmin(keys, tk, dl)
            c = list(cur[key])
            c[i] = {k: v for k, v in msg.items() if k == "MTI" or k in ks}
            cur = rebuild(c, fins, cur)
    return cur
