"""C06 - IPM file round trip, and reader / writer instances on different files do not influence each other.

Control arm: one writer actor then one reader actor (no interleaving), decoded messages compared
with the originals.  Isolation: 2-4 actors alive at once, each on its own SimFile, stepped by an
op-level scheduler or pre-empted at source-line granularity (baton-passing threads); every actor's
observation log must equal the log of the same actor executed alone.
"""
import hashlib

from .. import multi, msgcodec, msggen, msgcmp, pipeline, shrink, sut, workload
from ..kernel import Streams, sub_seed, EventLog, sig64, canon
from . import common

ID = "C06"
LEVEL = "exploration"
BUDGET_S = {"quick": 0, "thorough": 900}
RULE = ("case = one control round trip (1..300 well-formed messages, nine single-byte codecs, VBS / 1014, packaged and "
        "generated configurations) or one multi-actor run (2..4 IpmWriter / VbsWriter / IpmReader / VbsReader actors on "
        "different files, some readers on faulted images) under a seeded schedule: op-level (uniform, round-robin, bursty, "
        "run-one-to-its-end) or line-level (1..6 PCT-style switch points over the solo step count, or a switch every N "
        "traced lines). distinct = distinct hash of the (actor, op) sequence (op-level) or of the (actor, function, line, "
        "target) switch points (line-level), or of (encoding, blocked, config kind, message-list digest) for control runs; "
        "non-trivial = at least one switch while both the pre-empted and the resumed actor are mid-file (control: file "
        "larger than one block or >= 2 records)")
COMPONENTS = {
    "real": ["cardutil.mciipm.IpmWriter", "cardutil.mciipm.IpmReader", "cardutil.mciipm.VbsWriter",
             "cardutil.mciipm.VbsReader", "cardutil.mciipm.Block1014", "cardutil.mciipm.Unblock1014",
             "cardutil.iso8583.dumps / loads", "real OS threads (line-level): which one runs is decided by the scenario"],
    "stub": ["SimFile (one per actor)", "op-level scheduler", "line-level baton scheduler (sys.settrace in cardutil frames)"],
    "reference": ["solo execution of the same actor (isolation oracle)", "msgcmp.compare_messages (round-trip oracle)"],
}
ASSUMPTIONS = ["pre-emption happens at source-line boundaries inside cardutil frames only (never inside stdlib / C code)",
               "actors use different files (two actors on one file are outside the property)",
               "well-formed messages as defined for C01 (generator msggen); round-trip defects of single messages surface "
               "here but belong to C01/C02, which are not claimed"]


# ---------------------------------------------------------------------------------------------
# control arm
# ---------------------------------------------------------------------------------------------

def gen_control(seed_i, tier):
    st = Streams(seed_i)
    kn = st["knobs"]
    r = kn.random()
    nmax = 8 if r < 0.6 else (60 if r < 0.9 else 300)
    maxlen = kn.choice([6000, 6000, 6000, 10000, 2000])
    enc, cfg, msgs = msggen.gen_file_messages(st, nmax=nmax, max_record=maxlen)
    if cfg == "packaged" and maxlen in (2000, 6000) and kn.random() < 0.3:
        # one message whose encoded record is EXACTLY the configured maximum (and one a byte shorter)
        wl = st["workload"]
        for target in (maxlen, maxlen - 1):
            m = {"MTI": "1240", "DE2": "".join(wl.choice("0123456789") for _ in range(16))}
            size = 20 + 2 + 16
            for de in ("DE54", "DE72", "DE111", "DE127", "DE63"):
                room = target - size - 3
                if room <= 0:
                    break
                n = min(999, room)
                m[de] = msggen.gen_text(wl, n, enc)
                size += 3 + n
            if size < target:
                # the rest goes into PDS carriers (7 characters of header per sub-element)
                pds = {}
                tag = 1
                while size < target and tag < 40:
                    carriers_before = len(msggen.pack_pds(pds))
                    room = target - size
                    extra = 3 if (not pds or len(msggen.pack_pds(pds)[-1]) + 8 > 999) else 0
                    n = min(992, room - 7 - extra)
                    if n < 0:
                        break
                    pds[f"PDS{tag:04}"] = msggen.gen_text(wl, n, "ascii")
                    new_size = 20 + 2 + 16 + sum(3 + len(v) for k, v in m.items() if k.startswith("DE") and k != "DE2") \
                        + sum(3 + len(c) for c in msggen.pack_pds(pds))
                    size = new_size
                    tag += 1
                m.update(pds)
            if msggen.msg_size(m, msgcodec.effective_cfg(cfg)) == target:
                msgs.insert(wl.randint(0, len(msgs)), msgcodec.msg_to_json(m))
    return {"kind": "vbs_pipeline", "level": "ipm", "blocked": kn.random() < 0.5, "storage": "sim",
            "api": kn.choice(["write", "write_many", "ctx"]), "reader": "class", "encoding": enc, "config": cfg,
            "messages": msgs, "knobs": {"MAX_VBS_RECORD_LENGTH": maxlen}}


def judge_control(scn, log=None):
    items = pipeline.scenario_items(scn)
    wr = pipeline.write_phase(scn, log=log, items=items)
    tag = f"enc={scn.get('encoding')}|blk={int(scn['blocked'])}"
    if wr.error or wr.fin_errors:
        e = wr.error or wr.fin_errors[0][1:]
        return [{"oracle": "C06.control.writer_completes", "detail": f"IpmWriter raised {e}",
                 "sig": f"C06.control.writer_completes|{e[0]}"}], wr, None
    rd = pipeline.read_phase(scn, wr.image, log=log)
    fails = []
    cfg = msgcodec.effective_cfg(scn.get("config", "packaged"))
    if rd.end != "stop" or len(rd.items) != len(items):
        fails.append({"oracle": "C06.control.same_number_of_messages",
                      "detail": f"{len(items)} messages written, {len(rd.items)} read back then {rd.end} {rd.err_text or ''} ({tag})",
                      "sig": f"C06.control.same_number_of_messages|{rd.end}"})
    else:
        for i, (o, g) in enumerate(zip(items, rd.items)):
            d = msgcmp.compare_messages(o, g, cfg)
            if d:
                fails.append({"oracle": "C06.control.messages_equal",
                              "detail": f"message {i + 1} of {len(items)} differs after the round trip ({tag}): {d[:3]}",
                              "sig": f"C06.control.messages_equal|{d[0].split(':')[0][:12]}"})
                break
    return fails, wr, rd


# ---------------------------------------------------------------------------------------------
# multi-actor scenarios
# ---------------------------------------------------------------------------------------------

def gen_actor(st, idx, small):
    kn = st["knobs"]
    sub = Streams(sub_seed(st.seed, "actor", idx))
    nmax = 6 if small else 20
    role = kn.choice(["writer", "reader", "reader"])
    if kn.random() < 0.8:
        enc, cfg, msgs = msggen.gen_file_messages(sub, nmax=nmax, max_record=3000)
        w = {"role": "writer", "cls": "IpmWriter", "blocked": kn.random() < 0.5, "encoding": enc, "config": cfg, "messages": msgs}
        rcls = "IpmReader"
    else:
        recs = workload.gen_records(sub["workload"], 3000, nmax)
        w = {"role": "writer", "cls": "VbsWriter", "blocked": kn.random() < 0.5, "records": recs}
        if kn.random() < 0.5:
            # length prefixes that straddle a payload edge: a single write() of the blocker is then split in two
            wl2 = sub["workload"]
            recs = []
            for _ in range(wl2.randint(2, 5)):
                recs.append({"pos": [wl2.randint(0, 999), wl2.choice([1005, 1006, 1007]) if not recs or wl2.random() < 0.5
                                     else wl2.choice([1001, 1002, 1003, 1013, 1014, 1015, wl2.randint(1, 900)])]})
            w = {"role": "writer", "cls": "VbsWriter", "blocked": True, "records": recs}
        rcls = "VbsReader"
    if role == "writer":
        if w["cls"] == "IpmWriter" and kn.random() < 0.3:
            # one item the encoder must refuse (a value that cannot be converted for its typed field):
            # the error belongs to this writer only and must not leak into any other instance
            cfgd = msgcodec.effective_cfg(w["config"])
            typed = sorted(int(b) for b, c in cfgd.items() if c.get("field_python_type") in ("int", "long", "datetime")
                           and c["field_type"] == "FIXED" and 2 <= int(b) <= 127)
            if typed:
                bad = kn.choice(typed)
                lower = sorted(int(b) for b, c in cfgd.items() if 2 <= int(b) < bad and c["field_type"] == "FIXED"
                               and not c.get("field_python_type") and not c.get("field_processor"))
                poison = {"MTI": "1644", f"DE{bad}": "not-a-number"}
                for b in lower[:2]:
                    poison[f"DE{b}"] = "Z" * cfgd[str(b)]["field_length"]   # fields encoded before the failure
                w["messages"].insert(kn.randint(0, len(w["messages"])), poison)
                w["poisoned"] = True
        if kn.random() < 0.3:
            w["write_many"] = kn.choice([2, 3, 5])      # items handed over in chunks through write_many
        return w
    spec = {"role": "reader", "cls": rcls, "blocked": w["blocked"], "encoding": w.get("encoding"),
            "config": w.get("config", "packaged"), "image_from": w}
    if kn.random() < 0.25:
        f = sub["faults"]
        spec["faults"] = [{"kind": "substitute", "off": f.randint(0, 400), "val": f.choice([0x00, 0xFF, 0x2D, 0x41, 0x7A])}]
    return spec


def gen_multi(seed_i, mode, tier):
    st = Streams(seed_i)
    kn = st["knobs"]
    n = kn.choice([2, 2, 3, 3, 4])
    many = mode == "op" and kn.random() < 0.05
    if many:
        n = kn.randint(17, 40)   # instance-count dependent leaks (registries, bounded caches)
    scn = {"kind": "multi_actor", "mode": mode,
           "actors": [gen_actor(st, i, small=(mode == "line" or many)) for i in range(n)]}
    if kn.random() < 0.4:
        # several instances are handed the SAME generated configuration (one dict object when share_config)
        donors = [a for a in scn["actors"] if isinstance((a if a["role"] == "writer" else a["image_from"]).get("config"), dict)]
        if donors and len(scn["actors"]) >= 2:
            d = donors[0]
            dsrc = d if d["role"] == "writer" else d["image_from"]
            other = next(a for a in scn["actors"] if a is not d)
            osrc = other if other["role"] == "writer" else other["image_from"]
            if osrc.get("messages") is not None:
                sub = Streams(sub_seed(seed_i, "shared"))
                cfg = dsrc["config"]
                enc = osrc.get("encoding") or "latin_1"
                msgs = [msgcodec.msg_to_json(msggen.gen_message(sub["workload"], cfg, enc, 3000)) for _ in range(len(osrc["messages"]))]
                osrc["config"] = cfg
                osrc["messages"] = msgs
                if other["role"] == "reader":
                    other["config"] = cfg
                scn["share_config"] = True
    if kn.random() < 0.08:
        # two readers over the same merchant strings whose configurations differ ONLY in the DE43 regex
        import copy as _copy
        sub = Streams(sub_seed(seed_i, "de43pair"))
        wl = sub["workload"]
        cfg_a = _copy.deepcopy(msgcodec.packaged_bit_config())
        cfg_b = _copy.deepcopy(cfg_a)
        cfg_b["43"]["field_processor_config"] = msggen.DE43_REGEX_B
        msgs = []
        for _ in range(wl.randint(2, 5)):
            m = msggen.gen_message(wl, cfg_a, "latin_1", 2000)
            m["DE43"] = msggen.gen_field_value(wl, {"field_type": "LLVAR", "field_length": 0, "field_processor": "DE43"}, "latin_1")
            msgs.append(msgcodec.msg_to_json(m))
        blocked = kn.random() < 0.5
        pair = []
        for cfg in (cfg_a, cfg_b):
            w = {"role": "writer", "cls": "IpmWriter", "blocked": blocked, "encoding": "latin_1", "config": cfg, "messages": msgs}
            pair.append({"role": "reader", "cls": "IpmReader", "blocked": blocked, "encoding": "latin_1", "config": cfg, "image_from": w})
        scn["actors"] = pair + scn["actors"][:1]
        scn["de43_pair"] = True
        n = len(scn["actors"])
    elif kn.random() < 0.08:
        # codec twins: the SAME file bytes read by two readers that differ only in the codec of the same
        # family (cp500 / cp037 / cp1140 ...): equal raw bytes decode to different text for a few characters
        sub = Streams(sub_seed(seed_i, "twins"))
        wl = sub["workload"]
        ea, eb = sub["knobs"].choice([("cp500", "cp037"), ("cp037", "cp500"), ("cp500", "cp1140"), ("latin_1", "cp1252" if False else "iso8859_15")])
        cfgp = msgcodec.packaged_bit_config()
        special = "!|[]^~{}\\$#@" + "ABC123 "
        msgs = []
        for _ in range(wl.randint(2, 5)):
            m = {"MTI": "1240", "DE2": "".join(wl.choice("0123456789") for _ in range(16)),
                 "DE42": "".join(wl.choice(special) for _ in range(15)),
                 "DE41": "".join(wl.choice(special) for _ in range(8)),
                 "DE72": "".join(wl.choice(special) for _ in range(wl.randint(1, 60)))}
            msgs.append(m)
        blocked = kn.random() < 0.5
        w = {"role": "writer", "cls": "IpmWriter", "blocked": blocked, "encoding": ea, "config": "packaged", "messages": msgs}
        twins = [{"role": "reader", "cls": "IpmReader", "blocked": blocked, "encoding": e, "config": "packaged",
                  "image_from": w, "faults": [{"kind": "extend", "hex": ""}]} for e in (ea, eb)]
        scn["actors"] = twins + scn["actors"][:1]
        scn["codec_twins"] = True
        n = len(scn["actors"])
    straddle_race = False
    if mode == "line" and not scn.get("codec_twins") and not scn.get("de43_pair") and kn.random() < 0.12:
        # two or three blocked writers whose length prefixes keep straddling payload edges (each such write()
        # is split in two inside the blocker), pre-empted every few source lines
        sub = Streams(sub_seed(seed_i, "straddle"))
        wl2 = sub["workload"]
        acts = []
        for _ in range(kn.choice([2, 2, 3])):
            recs = [{"pos": [wl2.randint(0, 999), wl2.choice([1005, 1006, 1007])]}]
            for _ in range(wl2.randint(2, 5)):
                # keep the running stream position so that the next prefix straddles again: 4 + L = 1012k + {1..3} - previous residue
                recs.append({"pos": [wl2.randint(0, 999), wl2.choice([1008, 1009, 1010, 1011, 1012, 2020, 2024, wl2.randint(1, 600)])]})
            acts.append({"role": "writer", "cls": "VbsWriter", "blocked": True, "records": recs})
        scn["actors"] = acts
        scn["straddle_race"] = True
        straddle_race = True
        n = len(acts)
    if mode == "line" and not straddle_race and not scn.get("codec_twins") and not scn.get("de43_pair") and kn.random() < 0.12:
        # two or three readers of multi-block 1014 files, pre-empted every few source lines (the unblocker's
        # refill loop is where instances could meet)
        sub = Streams(sub_seed(seed_i, "readers"))
        wl2 = sub["workload"]
        acts = []
        for _ in range(kn.choice([2, 2, 3])):
            recs = [{"pos": [wl2.randint(0, 999), wl2.choice([700, 1008, 1500, 2100, 3000, wl2.randint(1, 2500)])]}
                    for _ in range(wl2.randint(2, 5))]
            wsp = {"role": "writer", "cls": "VbsWriter", "blocked": True, "records": recs}
            acts.append({"role": "reader", "cls": "VbsReader", "blocked": True, "encoding": None, "config": "packaged",
                         "image_from": wsp})
        scn["actors"] = acts
        scn["reader_race"] = True
        straddle_race = True           # same dense schedule choice below
        n = len(acts)
    sc = st["schedule"]
    if mode == "op":
        # number of ops per actor is known from the specs (writers: items + close; readers: records + 1)
        def nops(a):
            src = a if a["role"] == "writer" else a["image_from"]
            k = len(src.get("messages") or src.get("records") or [])
            if a["role"] == "writer" and a.get("write_many"):
                k = -(-k // a["write_many"])
            return k + 2
        total = sum(nops(a) for a in scn["actors"])
        pat = sc.choice(["uniform", "roundrobin", "bursty", "one_to_end"])
        order = []
        if pat == "uniform":
            order = [sc.randrange(n) for _ in range(total + 4)]
        elif pat == "roundrobin":
            order = [i % n for i in range(total + 4)]
        elif pat == "bursty":
            while len(order) < total + 4:
                order += [sc.randrange(n)] * sc.randint(1, 6)
        else:
            first = sc.randrange(n)
            k = sc.randint(1, 4)
            order = [sc.randrange(n) for _ in range(k)] + [first] * (nops(scn["actors"][first]) + 1)
        scn["schedule"] = {"pattern": pat, "order": order}
    else:
        # switch points are placed over an ESTIMATE of the traced line count that depends on the
        # scenario data only (about 320 lines per message for the two 126-bit loops plus ~45 per
        # field), never on a dry run of the code under test: generation must not depend on the SUT
        def est(a):
            src = a if a["role"] == "writer" else a["image_from"]
            if src.get("messages") is not None:
                return 60 + sum(320 + 45 * len(mm) for mm in src["messages"])
            return 60 + 25 * len(src.get("records") or [])
        steps = [est(a) for a in scn["actors"]]
        total = max(1, sum(steps))
        if straddle_race:
            scn["schedule"] = {"pattern": "dense", "start": sc.randrange(n), "every": sc.choice([2, 3, 5, 7, 11, 13]),
                               "estimated_steps": steps}
        elif sc.random() < 0.5:
            k = sc.randint(1, 6)
            sw = sorted([sc.randint(1, total), sc.randrange(n)] for _ in range(k))
            scn["schedule"] = {"pattern": "pct", "start": sc.randrange(n), "switches": sw, "estimated_steps": steps}
        else:
            scn["schedule"] = {"pattern": "dense", "start": sc.randrange(n),
                               "every": sc.choice([7, 23, 61, 150, 400, 1000, 2500]), "estimated_steps": steps}
    return scn


def judge_multi(scn, log=None):
    try:
        solo, inter, stats = multi.run_pristine(scn)
    except multi.ActorDidNotTerminate:
        # not an isolation verdict (non-termination belongs to C07); counted, and the task gives up after two
        return [], {"switches": 0, "points": [], "trace": [], "steps": 0, "timeout": True}
    except multi.SoloWriterFailed as ex:
        e = ex.args[0] if ex.args else ("?", "")
        return [{"oracle": "C06.control.writer_completes",
                 "detail": f"the writer raised {e} on a well-formed message list while preparing a reader's file",
                 "sig": f"C06.control.writer_completes|{e[0]}"}], {"switches": 0, "points": [], "trace": [], "steps": 0}
    if log is not None:
        for idx in stats.get("trace", []):
            log.emit(f"actor{idx}", "step")
    fails = []
    for i, (a, b) in enumerate(zip(solo, inter)):
        role = a.spec["role"] + ":" + a.spec["cls"]
        if a.obs != b.obs or a.final() != b.final():
            j = next((k for k in range(min(len(a.obs), len(b.obs))) if a.obs[k] != b.obs[k]), min(len(a.obs), len(b.obs)))
            sa = a.obs[j] if j < len(a.obs) else "<end>"
            sb = b.obs[j] if j < len(b.obs) else "<end>"
            kind = (sb[0] if isinstance(sb, tuple) else "end")
            fails.append({"oracle": "C06.isolation.interleaved_equals_solo",
                          "detail": f"actor {i} ({role}) observed {sb} at its step {j} when interleaved ({scn['mode']}-level, "
                                    f"{stats.get('switches')} switches) but {sa} when run alone",
                          "sig": f"C06.isolation.interleaved_equals_solo|{scn['mode']}|{a.spec['role']}|{kind}"})
    # control-arm oracle for every unfaulted IPM reader of the interleaved run
    for i, b in enumerate(inter):
        sp = b.spec
        if sp["role"] == "reader" and sp["cls"] == "IpmReader" and not sp.get("faults"):
            originals = [msgcodec.msg_from_json(x) for x in sp["image_from"]["messages"]]
            cfg = msgcodec.effective_cfg(sp.get("config", "packaged"))
            bad = None
            if len(b.values) != len(originals):
                bad = f"{len(originals)} messages in the file, {len(b.values)} read"
            else:
                for k, (o, g) in enumerate(zip(originals, b.values)):
                    d = msgcmp.compare_messages(o, g, cfg)
                    if d:
                        bad = f"message {k + 1}: {d[:2]}"
                        break
            if bad:
                fails.append({"oracle": "C06.interleaved.reader_returns_the_messages_written",
                              "detail": f"actor {i} (IpmReader, {scn['mode']}-level interleaving): {bad}",
                              "sig": f"C06.interleaved.reader_returns_the_messages_written|{scn['mode']}"})
    return fails, stats


def judge_scenario(scn):
    if scn["kind"] == "multi_actor":
        return judge_multi(scn)[0]
    return judge_control(scn)[0]


# ---------------------------------------------------------------------------------------------

def _record(part, fails, scn):
    for v in fails:
        if sum(1 for x in part["fails"] if x["sig"] == v["sig"]) < 1 and len(part["fails"]) < 10:
            v["scenario"] = scn
            part["fails"].append(v)


def plan(tier, seed, wave):
    if tier == "quick":
        if wave > 0:
            return []
        nc, no, nl = 800, 960, 320
    else:
        nc, no, nl = 4800, 6400, 1920
    tasks = []
    for j in range(0, nl, 4):
        tasks.append({"fam": "line", "seed": seed, "start": wave * nl + j, "n": 4, "tier": tier})
    for j in range(0, nc, 20):
        tasks.append({"fam": "control", "seed": seed, "start": wave * nc + j, "n": 20, "tier": tier})
    for j in range(0, no, 20):
        tasks.append({"fam": "op", "seed": seed, "start": wave * no + j, "n": 20, "tier": tier})
    return tasks


def run_task(task):
    from ..engine import new_partial
    part = new_partial()
    c = part["counters"]
    for i in range(task["start"], task["start"] + task["n"]):
        s = sub_seed(task["seed"], ID, task["fam"], i)
        part["runs"] += 1
        if task["fam"] == "control":
            scn = gen_control(s, task["tier"])
            log = EventLog(keep=(i < 8))
            fails, wr, rd = judge_control(scn, log=log)
            part["evals"] += 1
            part["events"] += log.seq
            n = len(scn["messages"])
            c[f"knob:control:enc={scn['encoding']}"] += 1
            c[f"knob:control:blocked={int(scn['blocked'])},cfg={'packaged' if scn['config'] == 'packaged' else 'generated'}"] += 1
            if n >= 100:
                c["probe:control_file_with_100plus_records"] += 1
            try:
                if wr is not None and any(len(r) == scn["knobs"]["MAX_VBS_RECORD_LENGTH"] for r in pipeline.asked_records(scn)):
                    c["probe:control_message_of_exactly_the_maximum_record_length"] += 1
            except Exception:
                pass      # the encoder refused a message: already a control-arm verdict above
            if len(wr.image) > 20 * 1014:
                c["probe:control_file_over_20_blocks"] += 1
            if n >= 2 or len(wr.image) > 1014:
                part["sigs"].add(sig64("ctl", scn["encoding"], scn["blocked"], hashlib.sha1(wr.image).digest()))
            if i < 8:
                part["digests"].append(hashlib.sha256((canon(scn) + log.digest()).encode()).hexdigest()[:16])
            _record(part, fails, scn)
            if len(part["samples"]) < 1 and n <= 3:
                part["samples"].append(scn)
        else:
            mode = task["fam"]
            if c.get("probe:actor_did_not_terminate", 0) >= 2:
                c["probe:scenarios_skipped_after_repeated_nontermination"] += 1
                continue
            scn = gen_multi(s, mode, task["tier"])
            log = EventLog(keep=(i < 8)) if mode == "op" else None
            fails, stats = judge_multi(scn, log=log)
            if stats.get("timeout"):
                c["probe:actor_did_not_terminate"] += 1
            part["evals"] += 1
            part["events"] += stats.get("ops", 0) + stats.get("switches", 0)
            part["steps"] += stats.get("steps", 0)
            c[f"fault:preempt_{mode}_level"] += stats.get("switches", 0)
            c[f"knob:{mode}:pattern={scn['schedule']['pattern']},actors={len(scn['actors'])}"] += 1
            if any(a.get("faults") for a in scn["actors"]):
                c["probe:run_with_a_reader_on_a_faulted_image"] += 1
            if scn.get("share_config"):
                c["probe:run_with_instances_sharing_one_config_object"] += 1
            if scn.get("reader_race"):
                c["probe:run_with_blocked_readers_preempted_every_few_lines"] += 1
            if scn.get("straddle_race"):
                c["probe:run_with_blocked_writers_splitting_writes_across_payload_edges"] += 1
            if scn.get("codec_twins"):
                c["probe:run_with_two_readers_of_the_same_bytes_under_sibling_codecs"] += 1
            if scn.get("de43_pair"):
                c["probe:run_with_two_readers_differing_only_in_the_DE43_regex"] += 1
            if any(a.get("write_many") for a in scn["actors"]):
                c["probe:run_with_a_writer_using_write_many_chunks"] += 1
            if len(scn["actors"]) >= 17:
                c["probe:run_with_17_or_more_instances"] += 1
            if any(a.get("poisoned") for a in scn["actors"]):
                c["probe:run_with_a_writer_refusing_one_item"] += 1
            if mode == "op":
                key = sig64("op", tuple(stats["trace"]), tuple(a["role"] for a in scn["actors"]))
            else:
                key = sig64("line", tuple(stats["points"]), stats["switches"])
            part["sigsets"].setdefault(f"distinct_{mode}_level_interleavings", set()).add(key)
            if stats.get("nontrivial_switches", 0) > 0:
                part["sigs"].add(key)
                c[f"probe:{mode}_level_runs_with_midfile_switch"] += 1
            if i < 8:
                h = hashlib.sha256(canon(scn).encode())
                h.update(repr(stats.get("trace") or stats.get("points")).encode())
                h.update(str(len(fails)).encode())
                part["digests"].append(h.hexdigest()[:16])
            _record(part, fails, scn)
            if len(part["samples"]) < 1 and len(canon(scn)) < 3000:
                part["samples"].append(scn)
    return part


def digest_slice(seed):
    """'stable|full': the stable part (scenario, verdicts) must repeat in a warm process; the full part
    (also switch points and step counts) is compared between cold processes only, because a correct
    implementation may legitimately memoise and so execute fewer lines the second time"""
    h = hashlib.sha256()
    hf = hashlib.sha256()
    for i in range(3):
        scn = gen_multi(sub_seed(seed, ID, "line", i), "line", "quick")
        fails, stats = judge_multi(scn)
        h.update(canon(scn).encode())
        h.update(str(len(fails)).encode())
        hf.update(repr(stats["points"]).encode())
        hf.update(str((stats["steps"], stats["switches"])).encode())
    for i in range(6):
        scn = gen_multi(sub_seed(seed, ID, "op", i), "op", "quick")
        log = EventLog()
        fails, stats = judge_multi(scn, log=log)
        h.update((canon(scn) + log.digest() + str(len(fails))).encode())
    return h.hexdigest()[:16] + "|" + hf.hexdigest()[:16]


def minimise(scn, oracle):
    if scn["kind"] != "multi_actor":
        return common.minimise_items(scn, oracle, judge_scenario, alts=({"blocked": False}, {"api": "write"}))
    dl = shrink.Deadline(120)

    def ok(c):
        try:
            return any(f["oracle"] == oracle for f in judge_scenario(c))
        except Exception:
            return False

    cur = scn

    def drop_actor(c, k):
        acts = [a for i, a in enumerate(c["actors"]) if i != k]
        sch = dict(c["schedule"])
        remap = lambda t: t - 1 if t > k else t  # noqa
        if "order" in sch:
            sch["order"] = [remap(t) for t in sch["order"] if t != k]
        if "switches" in sch:
            sch["switches"] = [[s, remap(t)] for s, t in sch["switches"] if t != k]
        if sch.get("start", 0) == k:
            sch["start"] = 0
        elif "start" in sch:
            sch["start"] = remap(sch["start"])
        return dict(c, actors=acts, schedule=sch)

    k = len(cur["actors"]) - 1
    while k >= 0 and len(cur["actors"]) > 2 and not dl.over():
        cand = drop_actor(cur, k)
        if ok(cand):
            cur = cand
        k -= 1
    # fewer messages / records per actor
    for i in range(len(cur["actors"])):
        if dl.over():
            break
        a = cur["actors"][i]
        src = a if a["role"] == "writer" else a["image_from"]
        key = "messages" if "messages" in src and src.get("messages") is not None else "records"
        if not src.get(key):
            continue

        def with_items(lst, i=i, a=a, key=key):
            acts = list(cur["actors"])
            if a["role"] == "writer":
                acts[i] = dict(a, **{key: lst})
            else:
                acts[i] = dict(a, image_from=dict(a["image_from"], **{key: lst}))
            return dict(cur, actors=acts)
        lst = shrink.ddmin(src[key], lambda l: len(l) > 0 and ok(with_items(l)), dl, min_len=1)
        cur = with_items(lst)
    sch = cur["schedule"]
    if "switches" in sch and sch["switches"]:
        sw = shrink.ddmin(sch["switches"], lambda s: ok(dict(cur, schedule=dict(sch, switches=s))), dl)
        cur = dict(cur, schedule=dict(sch, switches=sw))
    if "order" in sch and sch["order"]:
        od = shrink.ddmin(sch["order"], lambda s: ok(dict(cur, schedule=dict(sch, order=s))), dl)
        cur = dict(cur, schedule=dict(sch, order=od))
    return cur


def finalize(total, tier):
    probs = []
    for p in ("probe:op_level_runs_with_midfile_switch", "probe:line_level_runs_with_midfile_switch",
              "probe:control_file_with_100plus_records", "probe:run_with_a_reader_on_a_faulted_image"):
        if total["counters"].get(p, 0) == 0:
            probs.append(f"reach probe {p[6:]} stayed at zero")
    return {}, probs
