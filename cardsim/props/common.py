"""Shared pieces of the vbs_pipeline properties (C03, C09, C11)."""
from .. import workload, refmodel, pipeline
from ..kernel import Streams, sub_seed, spec_len


def gen_pipeline_scenario(seed, level_choices=("vbs",), nmax=12, storage="sim"):
    """seed -> fault-free vbs_pipeline scenario (swarm: knob, blocking, api, reader variant)"""
    st = Streams(seed)
    kn = st["knobs"]
    wl = st["workload"]
    level = kn.choice(list(level_choices))
    blocked = kn.random() < 0.6
    scn = {"kind": "vbs_pipeline", "level": level, "blocked": blocked, "storage": storage,
           "reader": "class"}
    if not blocked and kn.random() < 0.5:
        scn["omit_kwargs"] = True     # constructors / functions called the default way, without options
    if level == "vbs":
        maxlen = workload.pick_knob(kn)
        scn["knobs"] = {"MAX_VBS_RECORD_LENGTH": maxlen}
        scn["api"] = kn.choice(["write", "write", "write_many", "ctx", "ctx_many"])
        scn["records"] = workload.gen_records(wl, maxlen, nmax)
    else:
        from .. import msggen
        maxlen = kn.choice([6000, 6000, 6000, 1012, 10000])
        scn["knobs"] = {"MAX_VBS_RECORD_LENGTH": maxlen}
        scn["api"] = kn.choice(["write", "write_many", "ctx"])
        enc, cfg, msgs = msggen.gen_file_messages(st, nmax=nmax, max_record=maxlen)
        scn["encoding"] = enc
        scn["config"] = cfg
        scn["messages"] = msgs
    return scn


def n_items(scn):
    return len(scn["records"]) if scn["level"] == "vbs" else len(scn["messages"])


def stream_of(scn, image):
    return refmodel.payload(image) if scn["blocked"] else image


def maxlen_of(scn):
    return scn.get("knobs", {}).get("MAX_VBS_RECORD_LENGTH", 6000)


def boundary_offsets(asked, blocked, total_len):
    """file offsets around every structural boundary: prefix start/end, record end, payload edge,
    trailer, terminator, end of file"""
    marks = set([0, total_len])
    spans, term = refmodel.vbs_spans(asked)
    pts = []
    for (a, b, c) in spans:
        pts += [a, b, c]
    pts += [term, term + 4]

    def to_file(p):
        if not blocked:
            return p
        blk, r = divmod(p, refmodel.PAYLOAD)
        return blk * refmodel.BLOCK + r

    for p in pts:
        marks.add(to_file(p))
    if blocked:
        for b in range(0, total_len + 1, refmodel.BLOCK):
            marks.add(b)
            marks.add(b + refmodel.PAYLOAD)
    out = set()
    for mk in marks:
        for d in range(-8, 9):
            if 0 <= mk + d <= total_len:
                out.add(mk + d)
    return sorted(out)


def minimise_items(scn, oracle, judge, seconds=90, alts=()):
    """generic minimiser for pipeline-like scenarios: simpler configuration, fewer records /
    messages, shorter records, plainer content, fewer message keys.  `judge(scn)` -> fails."""
    from .. import shrink
    from ..kernel import spec_len
    dl = shrink.Deadline(seconds)

    def ok(c):
        try:
            return valid_scenario(c) and any(f["oracle"] == oracle for f in judge(c))
        except Exception:
            return False

    base = dict(scn)
    if not ok(base):
        return scn
    for alt in alts:
        cand = dict(base, **alt)
        if cand != base and not dl.over() and ok(cand):
            base = cand
    key = "records" if base.get("level", "vbs") == "vbs" else "messages"
    if key not in base:
        return base

    def with_items(lst, b=None):
        return dict(b or base, **{key: lst})

    if base.get("writer_ops"):
        # ops reference item indexes: drop write ops together with their items
        return base
    lst = shrink.ddmin(base[key], lambda l: ok(with_items(l)), dl, min_len=0)
    base = with_items(lst)
    if key == "records":
        for i in range(len(lst)):
            if dl.over():
                break
            n0 = spec_len(base[key][i])

            def test_len(n, i=i):
                c = list(base[key])
                c[i] = {"pos": [0, n]}
                return ok(with_items(c))
            if test_len(n0):
                n = shrink.shrink_int(n0, 1, test_len, dl)
                c = list(base[key])
                c[i] = {"pos": [0, n]}
                base = with_items(c)
    else:
        for i in range(len(lst)):
            if dl.over():
                break
            msg = base[key][i]
            keys = [k for k in msg if k != "MTI"]

            def test_keys(ks, i=i, msg=msg):
                c = list(base[key])
                c[i] = {k: v for k, v in msg.items() if k == "MTI" or k in ks}
                return ok(with_items(c))
            ks = shrink.ddmin(keys, test_keys, dl)
            c = list(base[key])
            c[i] = {k: v for k, v in msg.items() if k == "MTI" or k in ks}
            base = with_items(c)
    return base


def valid_scenario(scn):
    """a minimised scenario must stay inside what the property quantifies over: records non-empty and no
    longer than the configured maximum (otherwise the 'same oracle' would fail for an unrelated reason)"""
    from ..kernel import spec_len
    if scn.get("level", "vbs") == "vbs" and "records" in scn:
        mx = maxlen_of(scn)
        return all(1 <= spec_len(r) <= mx for r in scn["records"])
    return True
