"""C04 - 1014 blocking is well-formed and data-exact for every write sequence.

Simulation: operation histories on the stateful Block1014 over a SimFile; one finalisation
(finalise / seek(0) / close); final image judged against the reference blocker and the shape rules;
the one-shot block_1014 is run on the same data for comparison.
"""
import hashlib
import io

from .. import refmodel, shrink, sut, workload
from ..kernel import Streams, sub_seed, EventLog, sig64, canon, posbytes
from ..simfs import SimFile

ID = "C04"
LEVEL = "exploration"
BUDGET_S = {"quick": 0, "thorough": 600}
RULE = ("case = one write history on Block1014 + one finalisation. Directed sweep: every residue r in 0..1011 of "
        "bytes already written, reached by three chunkings ([r]; [1012, r]; [r/2, r-r/2, 2024] which leaves the "
        "trailer pending when r = 0), crossed with the next write length (quick: ~330 boundary lengths per residue; "
        "thorough: every length 0..3036), finalised via finalise/seek/close in rotation; seeded: 1..30 writes with "
        "boundary-biased lengths incl. 0-length and multi-block writes; bulk writes: every length 7900..13200 (quick: every "
        "second) in one call from eight starting situations (fresh, trailer written, trailer pending, mid-block), with and "
        "without a following write. Position-coded content. distinct = distinct "
        "(finalise-via, ((residue, length), ...)) histories (sweep tuples are distinct by construction); non-trivial = some write "
        "crosses or lands on a block boundary, is empty, or starts with the trailer pending")
COMPONENTS = {
    "real": ["cardutil.mciipm.Block1014", "cardutil.mciipm.block_1014"],
    "stub": ["SimFile"],
    "reference": ["refmodel.block", "refmodel.check_blocked_shape"],
}
ASSUMPTIONS = ["only the finalised image is judged (the property speaks of the finalised output); intermediate "
               "images feed the append-only probe only",
               "reference blocker written from the mciipm module documentation"]

FILLBLOCK = bytes([0x40]) * 1014
_oneshot_cache = {}


def oneshot(total):
    """image produced by the one-shot block_1014 for position-coded data of `total` bytes"""
    if total not in _oneshot_cache:
        m = sut.load()
        out = io.BytesIO()
        try:
            m["mciipm"].block_1014(io.BytesIO(posbytes(0, total)), out)
            _oneshot_cache[total] = out.getvalue()
        except Exception as ex:
            _oneshot_cache[total] = ("error", type(ex).__name__, str(ex)[:100])
    return _oneshot_cache[total]


def run_history(writes, fin, log=None, probes=None, as_type="bytes"):
    """executes one history under a wall-clock backstop (a blocker that never returns is a verdict, not a
    stuck worker)"""
    from ..steps import WallLimit, StepBudgetExceeded, hang_seen, too_many_hangs
    if too_many_hangs():
        return b"", sum(writes), ("DidNotTerminate", "not executed: three earlier histories did not terminate"), SimFile()
    try:
        with WallLimit(20.0):
            return _run_history(writes, fin, log, probes, as_type)
    except StepBudgetExceeded as ex:
        hang_seen()
        return b"", sum(writes), ("DidNotTerminate", str(ex)[:120]), SimFile()


def _run_history(writes, fin, log=None, probes=None, as_type="bytes"):
    """executes one history; returns (image, total bytes, error).  as_type: the bytes-like type handed to
    write() - bytes, bytearray or memoryview (the file API accepts any of them)"""
    m = sut.load()
    f = SimFile(log=log, name="disk")
    b = m["mciipm"].Block1014(f)
    pos = 0
    reuse = None
    try:
        for n in writes:
            if probes is not None:
                # model-derived (implementation independent): data so far ends exactly on a payload
                # edge, the situation in which the current code leaves the block trailer pending
                if pos > 0 and pos % 1012 == 0:
                    probes["probe:trailer_pending_at_write"] += 1
                    if n == 0:
                        probes["probe:zero_length_write_with_trailer_pending"] += 1
                if n == 0 and pos % 1012 == 0:
                    probes["probe:zero_length_write_at_boundary"] += 1
                if n > 2024:
                    probes["probe:write_spans_3plus_blocks"] += 1
            if log is not None:
                log.emit("blocker", "write", n)
            data = posbytes(pos, n)
            if as_type == "reused_buffer":
                # a copy loop that re-uses one buffer: the caller overwrites it right after write() returns
                if reuse is None or len(reuse) < n:
                    reuse = bytearray(max(n, 4096))
                reuse[:n] = data
                b.write(memoryview(reuse)[:n])
                reuse[:n] = b"\xee" * n
                pos += n
                continue
            if as_type == "bytearray":
                data = bytearray(data)
            elif as_type == "memoryview":
                data = memoryview(data)
            b.write(data)
            pos += n
        if probes is not None and pos > 0 and pos % 1012 == 0:
            probes["probe:trailer_pending_at_finalise"] += 1
        if log is not None:
            log.emit("blocker", fin)
        if fin == "finalise":
            b.finalise()
        elif fin == "seek":
            b.seek(0)
        else:
            b.close()
    except Exception as ex:
        return f.getvalue(), pos, (type(ex).__name__, str(ex)[:120]), f
    return f.getvalue(), pos, None, f


def judge_image(image, total, err, fin, f=None):
    fails = []
    if err:
        fails.append({"oracle": "C04.blocker.no_exception", "detail": f"Block1014 raised {err}",
                      "sig": f"C04.blocker.no_exception|{err[0]}"})
        return fails
    data = posbytes(0, total)
    ref = refmodel.block(data)
    if image != ref and image != ref + FILLBLOCK:
        why = refmodel.check_blocked_shape(image, data) or "image differs from the reference blocker output"
        fails.append({"oracle": "C04.stream.image_wellformed_and_data_exact", "detail": f"{why} (data {total} bytes, image {len(image)} bytes, via {fin})",
                      "sig": "C04.stream.image_wellformed_and_data_exact"})
    one = oneshot(total)
    if isinstance(one, tuple):
        fails.append({"oracle": "C04.oneshot.wellformed", "detail": f"block_1014 raised {one[1:]} for {total} bytes",
                      "sig": f"C04.oneshot.wellformed|{one[1]}"})
    else:
        if one != ref and one != ref + FILLBLOCK:
            why = refmodel.check_blocked_shape(one, data) or "differs from the reference blocker output"
            fails.append({"oracle": "C04.oneshot.wellformed", "detail": f"block_1014 output for {total} bytes: {why}",
                          "sig": "C04.oneshot.wellformed"})
        elif not fails and image != one and image != one + FILLBLOCK:
            fails.append({"oracle": "C04.stream_equals_oneshot", "detail": f"streaming image ({len(image)} bytes) is not the one-shot image ({len(one)} bytes) optionally followed by one all-fill block",
                          "sig": "C04.stream_equals_oneshot"})
    if f is not None and f.nonprefix_events:
        pass
    return fails


def judge_history(writes, fin, log=None, probes=None, as_type="bytes"):
    image, total, err, f = run_history(writes, fin, log, probes, as_type)
    return judge_image(image, total, err, fin, f), image, f


FINS = ("finalise", "seek", "close")


def chunkings(r):
    out = []
    if r > 0:
        out.append([r])
    out.append([1012, r] if r else [1012])
    out.append([r // 2, r - r // 2, 2024])
    return out


def quick_lengths(r):
    s = set([0, 1, 2, 3, 4, 5])
    comp = 1012 - r
    for base in (comp, comp + 1012, comp + 2024, 1012, 2024, 3036):
        for d in range(-3, 4):
            s.add(base + d)
    s.update(range(1004, 1022))
    s.update(range(2020, 2030))
    s.update(range(3030, 3037))
    s.update(range(7, 3037, 13))
    return sorted(x for x in s if 0 <= x <= 3036)


def plan(tier, seed, wave):
    tasks = []
    if wave == 0:
        step = 8 if tier == "thorough" else 23
        for lo in range(0, 1012, step):
            tasks.append({"fam": "sweep", "lo": lo, "hi": min(1012, lo + step), "tier": tier})
    if wave == 0:
        # bulk writes (8..13 blocks in one call) from the characteristic starting situations
        step = 250 if tier == "quick" else 60
        for lo in range(7900, 13200, step):
            tasks.append({"fam": "bulk", "lo": lo, "hi": min(13200, lo + step), "tier": tier})
    if tier == "quick":
        if wave > 0:
            return []
        n, chunk = 16000, 500
    else:
        n, chunk = 160000, 2500
    for j in range(0, n, chunk):
        tasks.append({"fam": "seeded", "seed": seed, "start": wave * n + j, "n": chunk})
    return tasks


def gen_seeded(seed_i):
    st = Streams(seed_i)
    kn = st["knobs"]
    scn = {"kind": "blocker_history", "writes": workload.gen_write_lens(st["workload"]),
           "finalise": kn.choice(FINS)}
    r = kn.random()
    if r < 0.10:
        scn["as_type"] = kn.choice(["bytearray", "memoryview", "reused_buffer", "reused_buffer"])
    elif r < 0.13:
        # very many small writes (call-count dependent behaviour)
        wl = st["workload"]
        scn["writes"] = [wl.choice([1, 1, 2, 3, 4, 7]) for _ in range(wl.randint(1000, 4000))]
    elif r < 0.16:
        wl = st["workload"]
        scn["writes"] = [wl.randint(0, 600)] + [wl.choice([65535, 65536, 65537, 131072, 1012 * 64, 1012 * 65, 1014 * 64, 70000])] + [wl.randint(0, 1100)]
    return scn


def _nontrivial(writes):
    pos = 0
    for n in writes:
        r = pos % 1012
        if n == 0 or r + n >= 1012 or (r == 0 and pos > 0):
            return True
        pos += n
    return False


def run_task(task):
    from ..engine import new_partial
    part = new_partial()
    c = part["counters"]
    if task["fam"] == "sweep":
        for r in range(task["lo"], task["hi"]):
            lens = range(0, 3037) if task["tier"] == "thorough" else quick_lengths(r)
            for ci, pre in enumerate(chunkings(r)):
                for n in lens:
                    fin = FINS[(r + n + ci) % 3]
                    writes = pre + [n]
                    fails, image, f = judge_history(writes, fin, probes=c)
                    part["evals"] += 1
                    part["events"] += f.n_ops
                    if n == 0 or r + n >= 1012 or r == 0:
                        part["nontrivial"] += 1
                    if f.nonprefix_events:
                        c["probe:blocker_overwrote_bytes"] += 1
                    for fl in fails:
                        if len(part["fails"]) < 6:
                            fl["scenario"] = {"kind": "blocker_history", "writes": writes, "finalise": fin}
                            part["fails"].append(fl)
        part["runs"] += 1
        if task["lo"] == 0:
            part["samples"].append({"kind": "blocker_history", "writes": [506, 506, 2024, 1011], "finalise": "seek",
                                    "note": "one of the sweep histories: residue 1012->0 with trailer pending, then 1011"})
    elif task["fam"] == "bulk":
        pres = ([], [1012], [2024], [506, 506, 2024], [1], [500], [1011], [1012, 1011])
        for n in range(task["lo"], task["hi"]):
            for pi, pre in enumerate(pres):
                if task["tier"] == "quick" and (n + pi) % 2:
                    continue
                fin = FINS[(n + pi) % 3]
                for tail in ([], [7]):
                    writes = pre + [n] + tail
                    fails, image, f = judge_history(writes, fin, probes=c)
                    part["evals"] += 1
                    part["events"] += f.n_ops
                    part["nontrivial"] += 1
                    c["probe:bulk_write_of_8_to_13_blocks"] += 1
                    for fl in fails:
                        if len(part["fails"]) < 6:
                            fl["scenario"] = {"kind": "blocker_history", "writes": writes, "finalise": fin}
                            part["fails"].append(fl)
        if task["lo"] == 7900:
            # single writes of a megabyte and more (recursion depth, chunking)
            for n in (1_000_000, 1_048_576, 1012 * 1100, 3_000_000):
                for pre in ([], [1012], [500]):
                    writes = pre + [n, 3]
                    fails, image, f = judge_history(writes, "finalise", probes=c)
                    part["evals"] += 1
                    part["nontrivial"] += 1
                    c["probe:single_write_of_1MB_or_more"] += 1
                    for fl in fails:
                        if len(part["fails"]) < 6:
                            fl["scenario"] = {"kind": "blocker_history", "writes": writes, "finalise": "finalise"}
                            part["fails"].append(fl)
        part["runs"] += 1
    else:
        for i in range(task["start"], task["start"] + task["n"]):
            scn = gen_seeded(sub_seed(task["seed"], ID, i))
            log = EventLog() if i < 16 else None
            fails, image, f = judge_history(scn["writes"], scn["finalise"], log=log, probes=c, as_type=scn.get("as_type", "bytes"))
            if scn.get("as_type"):
                c["knob:write_argument=" + scn["as_type"]] += 1
            if len(scn["writes"]) >= 1000:
                c["probe:history_of_1000_or_more_writes"] += 1
            if max(scn["writes"]) >= 65535:
                c["probe:single_write_of_64KiB_or_more"] += 1
            part["evals"] += 1
            part["runs"] += 1
            part["events"] += f.n_ops
            c[f"knob:finalise={scn['finalise']}"] += 1
            if _nontrivial(scn["writes"]):
                part["sigs"].add(sig64("C04", scn["finalise"], tuple(scn["writes"])))
            if log is not None:
                part["digests"].append(hashlib.sha256((canon(scn) + log.digest() + hashlib.sha1(image).hexdigest()).encode()).hexdigest()[:16])
            for fl in fails:
                if len(part["fails"]) < 6:
                    fl["scenario"] = scn
                    part["fails"].append(fl)
            if len(part["samples"]) < 2:
                part["samples"].append(scn)
    return part


def digest_slice(seed):
    h = hashlib.sha256()
    for i in range(16):
        scn = gen_seeded(sub_seed(seed, ID, i))
        log = EventLog()
        fails, image, f = judge_history(scn["writes"], scn["finalise"], log=log, as_type=scn.get("as_type", "bytes"))
        h.update((canon(scn) + log.digest() + hashlib.sha1(image).hexdigest() + str(len(fails))).encode())
    return h.hexdigest()[:16]


def judge_scenario(scn):
    return judge_history(scn["writes"], scn["finalise"], as_type=scn.get("as_type", "bytes"))[0]


def minimise(scn, oracle):
    dl = shrink.Deadline(60)

    at = scn.get("as_type", "bytes")

    def ok(writes, fin=None):
        fl = judge_history(writes, fin or scn["finalise"], as_type=at)[0]
        return any(x["oracle"] == oracle for x in fl)

    writes = shrink.ddmin(scn["writes"], ok, dl)
    for i in range(len(writes)):
        def t(n, i=i):
            w = list(writes)
            w[i] = n
            return ok(w)
        writes[i] = shrink.shrink_int(writes[i], 0, t, dl)
    fin = scn["finalise"]
    if fin != "finalise" and ok(writes, "finalise"):
        fin = "finalise"
    out = {"kind": "blocker_history", "writes": writes, "finalise": fin}
    if at != "bytes":
        if any(x["oracle"] == oracle for x in judge_history(writes, fin)[0]):
            return out
        out["as_type"] = at
    return out


def finalize(total, tier):
    probs = []
    for p in ("probe:trailer_pending_at_write", "probe:trailer_pending_at_finalise",
              "probe:write_spans_3plus_blocks", "probe:zero_length_write_at_boundary",
              "probe:zero_length_write_with_trailer_pending"):
        if total["counters"].get(p, 0) == 0:
            probs.append(f"reach probe {p[6:]} stayed at zero")
    return {"exhaustive_sweep": ("residue 0..1011 x 3 chunkings x next length 0..3036 enumerated completely"
                                 if tier == "thorough" else
                                 "residue 0..1011 x 3 chunkings x ~330 boundary-centred next lengths")}, probs
