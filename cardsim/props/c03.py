"""C03 - VBS framing survives write then read, byte-exact (the fault-free control arm of the
C09 / C11 simulation: writer actor -> storage seam -> reader actor, no faults)."""
import hashlib

from .. import pipeline, refmodel, workload
from ..kernel import Streams, sub_seed, EventLog, sig64, canon, mk_bytes
from . import common

ID = "C03"
LEVEL = "exploration"
BUDGET_S = {"quick": 0, "thorough": 600}
RULE = ("case = one fault-free write->read pipeline run. Directed: every single-record file of length 1..6000 "
        "(blocked and unblocked; thorough also 6001..10000 under the 10000 knob), two-record files whose second "
        "length prefix starts at payload offsets around every 1012 edge; seeded: 1..40 records with boundary-biased "
        "lengths, padding/terminator-like content, MAX_VBS_RECORD_LENGTH in {1,50,1012,6000,10000}, API variants "
        "(write, write_many, context manager, list/bytes functions), storage kinds (sim, BytesIO, real file). "
        "distinct = distinct (blocked, api, reader, storage, knob, per-record (prefix offset mod 1012 class, end offset "
        "mod 1012 class)) signatures; non-trivial = file larger than one block, or >= 2 records, or a prefix/record "
        "end within 4 bytes of a payload edge")
COMPONENTS = {
    "real": ["cardutil.mciipm.VbsWriter", "cardutil.mciipm.VbsReader", "cardutil.mciipm.Block1014",
             "cardutil.mciipm.Unblock1014", "cardutil.mciipm.vbs_list_to_bytes", "cardutil.mciipm.vbs_bytes_to_list",
             "io.BytesIO and OS files (storage kinds bytesio / realfile)"],
    "stub": ["SimFile (storage kind sim)"],
    "reference": ["refmodel.vbs_layout", "refmodel.check_blocked_shape", "refmodel.payload"],
}
ASSUMPTIONS = ["records are non-empty and no longer than the configured maximum (as the property states)",
               "reference layout written from the mciipm module documentation"]


def _cls(off):
    r = off % refmodel.PAYLOAD
    if off == 0:
        return 2
    if r == 0:
        return 0
    if r <= 3:
        return 1
    if r >= refmodel.PAYLOAD - 4:
        return 3
    return 2


def signature(scn, recs):
    spans, term = refmodel.vbs_spans(recs)
    per = tuple((_cls(a), _cls(c)) for a, b, c in spans[:12])
    nontrivial = (term + 4 > refmodel.PAYLOAD or len(recs) >= 2
                  or any(x in (0, 1, 3) for p in per for x in p))
    sig = sig64("C03", scn["blocked"], scn.get("api"), scn.get("reader"), scn.get("storage"),
                canon(scn.get("knobs")), per, len(recs), tuple(len(r) for r in recs[:12]))
    return sig, nontrivial


def judge(scn, log=None):
    """runs one fault-free pipeline scenario; returns (fails, stats)"""
    recs = pipeline.scenario_items(scn)
    tag = f"blk={int(scn['blocked'])}|api={scn.get('api')}|rd={scn.get('reader')}|st={scn.get('storage')}"
    fails = []
    wr = pipeline.write_phase(scn, log=log, items=recs)
    if wr.error or wr.fin_errors or wr.crashed:
        e = wr.error or (wr.fin_errors[0][1:] if wr.fin_errors else ("SimCrash", ""))
        fails.append({"oracle": "C03.writer.completes", "detail": f"writer raised {e}",
                      "sig": f"C03.writer.completes|{tag}|{e[0]}"})
        return fails, wr, None
    layout = refmodel.vbs_layout(recs)
    if not scn["blocked"]:
        if wr.image != layout:
            fails.append({"oracle": "C03.image.vbs_layout_exact",
                          "detail": f"unblocked image ({len(wr.image)} bytes) differs from len4be+data...+0000 ({len(layout)} bytes)",
                          "sig": f"C03.image.vbs_layout_exact|{tag}"})
    else:
        why = refmodel.check_blocked_shape(wr.image, layout)
        if why:
            fails.append({"oracle": "C03.image.blocked_payload_is_vbs_stream",
                          "detail": f"blocked image: {why}",
                          "sig": f"C03.image.blocked_payload_is_vbs_stream|{tag}"})
    rd = pipeline.read_phase(scn, wr.image, log=log,
                             storage=scn.get("read_storage") or ("sim" if scn.get("storage", "sim") == "sim" else "bytesio"))
    if rd.end != "stop" or rd.items != recs:
        n = len(rd.items) if rd.items is not None else 0
        fails.append({"oracle": "C03.reader.returns_exactly_the_records",
                      "detail": f"wrote {len(recs)} records (lengths {[len(r) for r in recs][:8]}), reader delivered {n} then {rd.end} {rd.err_text or ''}",
                      "sig": f"C03.reader.returns_exactly_the_records|{tag}|end={rd.end}"})
    return fails, wr, rd


def run_one(scn, part, want_digest=False):
    log = EventLog() if want_digest else EventLog(keep=False)
    fails, wr, rd = judge(scn, log=log)
    recs = pipeline.scenario_items(scn)
    part["evals"] += 1
    part["events"] += log.seq
    sig, nontriv = signature(scn, recs)
    if nontriv:
        part["sigs"].add(sig)
    spans, term = refmodel.vbs_spans(recs)
    c = part["counters"]
    for a, b, e in spans:
        if (a % refmodel.PAYLOAD) > refmodel.PAYLOAD - 4:
            c["probe:length_prefix_straddles_payload_edge"] += 1
        if e % refmodel.PAYLOAD == 0:
            c["probe:record_ends_on_payload_edge"] += 1
        if a % refmodel.PAYLOAD == 0 and a > 0:
            c["probe:length_prefix_starts_on_payload_edge"] += 1
    if recs and max(len(r) for r in recs) == common.maxlen_of(scn):
        c["probe:record_of_exactly_max_length"] += 1
    for fl in fails:
        if len(part["fails"]) < 6:
            fl["scenario"] = scn
            part["fails"].append(fl)
    if want_digest:
        part["digests"].append(hashlib.sha256((canon(scn) + log.digest()).encode()).hexdigest()[:16])


def gen_seeded(seed_i, tier):
    st = Streams(seed_i)
    nmax = 16 if tier == "quick" else 40
    scn = common.gen_pipeline_scenario(seed_i, level_choices=("vbs",), nmax=nmax)
    kn = st["knobs2"]
    r = kn.random()
    if r < 0.12:
        scn["api"] = "func"
    scn["reader"] = "func" if kn.random() < 0.25 else "class"
    if scn["api"] != "func":
        scn["storage"] = kn.choices(["sim", "bytesio", "realfile", "realfile+"], [6, 2, 1, 1])[0]
    if scn["reader"] == "class" and kn.random() < 0.15:
        scn["read_storage"] = "pipe"
    return scn


def plan(tier, seed, wave):
    tasks = []
    if wave == 0:
        step = 250
        for blocked in (False, True):
            for lo in range(1, 6001, step):
                tasks.append({"fam": "single", "lo": lo, "hi": min(6000, lo + step - 1), "blocked": blocked, "max": 6000})
        if tier == "thorough":
            for blocked in (False, True):
                for lo in range(6001, 10001, step):
                    tasks.append({"fam": "single", "lo": lo, "hi": min(10000, lo + step - 1), "blocked": blocked, "max": 10000})
        for blocked in (False, True):
            tasks.append({"fam": "pair", "blocked": blocked})
        for blocked in (False, True):
            tasks.append({"fam": "huge", "blocked": blocked})
    if tier == "quick":
        if wave > 0:
            return []
        n, chunk = 4800, 100
    else:
        n, chunk = 32000, 250
    for j in range(0, n, chunk):
        tasks.append({"fam": "seeded", "seed": seed, "start": wave * n + j, "n": chunk, "tier": tier})
    return tasks


def run_task(task):
    from ..engine import new_partial
    part = new_partial()
    if task["fam"] == "single":
        for ln in range(task["lo"], task["hi"] + 1):
            for api, reader in (("write", "class"), ("func", "func")) if ln % 7 == 0 else (("write", "class"),):
                scn = {"kind": "vbs_pipeline", "level": "vbs", "blocked": task["blocked"], "storage": "sim",
                       "api": api, "reader": reader, "knobs": {"MAX_VBS_RECORD_LENGTH": task["max"]},
                       "records": [{"pos": [0, ln]}]}
                run_one(scn, part)
            # the same length with all-0x40 content (EBCDIC blanks look like block trailers / fill) through
            # the list/bytes functions and the class API
            for api, reader in (("func", "func"), ("write", "class")) if ln % 2 == 0 else (("func", "func"),):
                run_one({"kind": "vbs_pipeline", "level": "vbs", "blocked": task["blocked"], "storage": "sim",
                         "api": api, "reader": reader, "knobs": {"MAX_VBS_RECORD_LENGTH": task["max"]},
                         "omit_kwargs": True, "records": [{"fill": [0x40, ln]}]}, part)
        part["runs"] += 1
    elif task["fam"] == "huge":
        # one call of write_many / a loop of write producing more than 4 MiB of framed bytes, and a
        # 64 KiB record under a raised maximum
        n = 760
        big = [{"pos": [i * 7, 5600 + (i % 400)]} for i in range(n)]
        for api in ("write_many", "write", "ctx_many"):
            run_one({"kind": "vbs_pipeline", "level": "vbs", "blocked": task["blocked"], "storage": "sim", "api": api,
                     "reader": "class", "knobs": {"MAX_VBS_RECORD_LENGTH": 6000}, "records": big}, part)
        for ln in (65535, 65536, 65537, 70000):
            run_one({"kind": "vbs_pipeline", "level": "vbs", "blocked": task["blocked"], "storage": "sim", "api": "write",
                     "reader": "class", "knobs": {"MAX_VBS_RECORD_LENGTH": 70000},
                     "records": [{"pos": [0, 10]}, {"pos": [10, ln]}, {"pos": [3, 5]}]}, part)
        # record COUNT crossing 255 and 65535 in one file
        for n in (255, 256, 257, 65535, 65536, 66000):
            if n > 300 and task["blocked"] and n != 65536:
                continue
            run_one({"kind": "vbs_pipeline", "level": "vbs", "blocked": task["blocked"], "storage": "sim", "api": "write_many",
                     "reader": "class", "knobs": {"MAX_VBS_RECORD_LENGTH": 6000},
                     "records": [{"pos": [i, 1 + (i % 3)]} for i in range(n)]}, part)
        part["counters"]["probe:file_with_more_than_65535_records"] += 1
        part["counters"]["probe:file_over_4MiB_written_in_one_write_many"] += 1
        part["runs"] += 1
    elif task["fam"] == "pair":
        for base in (0, 1012, 2024, 4048):
            for l1 in range(max(1, base + 990 - 4), base + 1030):
                if l1 > 6000:
                    continue
                for l2 in (1, 4, 1008, 1012):
                    scn = {"kind": "vbs_pipeline", "level": "vbs", "blocked": task["blocked"], "storage": "sim",
                           "api": "write_many", "reader": "class", "knobs": {"MAX_VBS_RECORD_LENGTH": 6000},
                           "records": [{"pos": [0, l1]}, {"fill": [0x40, l2]}]}
                    run_one(scn, part)
        part["runs"] += 1
    else:
        for i in range(task["start"], task["start"] + task["n"]):
            scn = gen_seeded(sub_seed(task["seed"], ID, i), task["tier"])
            run_one(scn, part, want_digest=(i < 8))
            part["runs"] += 1
            part["counters"][f"storage:{scn.get('storage', 'none')}"] += 1
            part["counters"][f"knob:MAX={common.maxlen_of(scn)}"] += 1
            part["counters"][f"knob:api={scn['api']},reader={scn['reader']},blocked={int(scn['blocked'])}"] += 1
            if len(part["samples"]) < 2:
                part["samples"].append(scn)
    return part


def digest_slice(seed):
    from ..engine import new_partial
    part = new_partial()
    for i in range(8):
        scn = gen_seeded(sub_seed(seed, ID, i), "quick")
        if scn.get("storage", "sim").startswith("realfile"):
            scn["storage"] = "sim"
        run_one(scn, part, want_digest=True)
    return hashlib.sha256("".join(part["digests"]).encode()).hexdigest()[:16]


def judge_scenario(scn):
    return judge(scn)[0]


def minimise(scn, oracle):
    return common.minimise_items(scn, oracle, judge_scenario,
                                 alts=({"storage": "sim"}, {"api": "write"}, {"reader": "class"},
                                       {"knobs": {"MAX_VBS_RECORD_LENGTH": 6000}}, {"blocked": False}))


def finalize(total, tier):
    probs = []
    for p in ("probe:length_prefix_straddles_payload_edge", "probe:record_ends_on_payload_edge",
              "probe:record_of_exactly_max_length", "probe:length_prefix_starts_on_payload_edge"):
        if total["counters"].get(p, 0) == 0:
            probs.append(f"reach probe {p[6:]} stayed at zero: workload does not reach the boundary cases")
    return {}, probs
