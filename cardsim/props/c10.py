"""C10 - a bad record is reported with its own record number and raw bytes.

Simulation: files of n records written by the real writer; the disk actor places one fault inside
record k only (framing level: cut inside data / inside the length field, oversize length; message
level, re-framed: undecodable MTI, unconfigured bit, bad length prefix, bad typed value, bad PDS / ICC
content); IpmReader (VBS and 1014) runs under the step budget; the raised error object and the
operator text are judged.  Enumerated per file: every k x every fault kind.
"""
import contextlib
import hashlib
import io

from .. import corrupt, faults, msgcodec, msggen, refiso, refmodel, sut, decode
from ..kernel import Streams, sub_seed, sig64, canon
from . import decfam, c07

ID = "C10"
LEVEL = "fault_enumeration"
BUDGET_S = {"quick": 0, "thorough": 900}
RULE = ("case = (file of n records, position k, fault kind, blocked?, encoding). For every generated file of up to 10 records "
        "every k in 1..n, and for the 12% of files with 11..40 records a fixed sample of positions (first, second, middle, "
        "last two, 11, 12, 16, 17, 32, 33), are crossed with every applicable fault kind: cut inside record k's data, cut inside its length field, "
        "oversize length; (message level, re-framed in place) undecodable MTI, non-numeric MTI, unconfigured bitmap bit, "
        "non-numeric length prefix, letter in an integer field, impossible date, malformed PDS header, DE55 ending inside a "
        "TLV, trailing byte, last length prefix pointing past the end, record cut down to a partial header. distinct = distinct (file digest, k, fault kind); non-trivial = the fault changed record k")
COMPONENTS = {
    "real": ["cardutil.mciipm.IpmReader", "cardutil.mciipm.VbsReader", "cardutil.mciipm.Unblock1014",
             "cardutil.mciipm.IpmWriter (clean files)", "cardutil.iso8583.loads", "cardutil.cli.print_exception_details",
             "cardutil.cli.mci_ipm_to_csv.cli_run and cardutil.cli.mideu.cli_run(extract) over SimFS (a third of the packaged-configuration cases)"],
    "stub": ["SimFile", "disk fault applier"],
    "reference": ["refiso.ref_read (REJECT = must-error set)", "refmodel.vbs_layout / block (re-framing)",
                  "control decode of the clean file (expected delivered records)"],
}
ASSUMPTIONS = ["a fault whose faulted record the strict reference reader classifies REJECT must be reported; don't-care "
               "content (bad PDS / TLV, non-numeric MTI) only has to be reported as record k if it is refused",
               "a cut inside a length field ends the iteration without an error object (allowed by C09); then only the "
               "delivered records are judged"]

MSG_FAULTS = ["mti_undecodable", "mti_nonnumeric", "unknown_bit", "bad_prefix", "bad_int", "bad_date", "bad_pds",
              "icc_cut", "trailing_byte", "overlong_prefix", "short_header", "bitmap_byte_ff"]
FRAME_FAULTS = ["cut_in_data", "cut_in_length", "oversize_length", "cut_in_trailer"]


def gen_file(seed_i, nmax=10):
    """file whose records all carry the field kinds the fault list needs (packaged configuration) or a
    generated configuration (faults chosen from what the records contain)"""
    st = Streams(seed_i)
    kn, wl = st["knobs"], st["workload"]
    enc = kn.choice(["latin_1", "cp500", "cp037", "ascii"])
    blocked = kn.random() < 0.5
    n = kn.randint(1, nmax)
    if kn.random() < 0.12:
        n = kn.randint(11, 40)          # position-dependent behaviour beyond the tenth record
    big = kn.random() < 0.15            # records above 999 / 4096 bytes
    if kn.random() < 0.75:
        cfgj = "packaged"
    else:
        cfgj = msggen.gen_config(st["config"])
    cfg = msgcodec.effective_cfg(cfgj)
    msgs = []
    for _ in range(n):
        m = msggen.gen_message(wl, cfg, enc, 6000 if big else 3000)
        if big and cfgj == "packaged" and wl.random() < 0.5 and not any(k.startswith("PDS") for k in m):
            m.update(msggen.gen_pds(wl, enc, 5, wl.choice([1200, 3000, 4500])))
        if big and cfgj == "packaged" and wl.random() < 0.5:
            # records well above 4096 bytes: four long LLLVAR text elements
            for de in ("DE54", "DE72", "DE111", "DE127"):
                m[de] = msggen.gen_text(wl, wl.choice([999, 998, 990]), enc)
            m.setdefault("DE63", msggen.gen_text(wl, 500, enc))
        if cfgj == "packaged":
            m.setdefault("DE2", "".join(wl.choice("0123456789") for _ in range(16)))
            m.setdefault("DE4", wl.randint(0, 10 ** 12 - 1))
            m.setdefault("DE12", msggen.gen_datetime(wl, "%y%m%d%H%M%S"))
            if not any(k.startswith("PDS") for k in m):
                m.update(msggen.gen_pds(wl, enc, 2, 120) or {"PDS0001": "x"})
            m.setdefault("DE55", msggen.gen_tlvs(wl, 40))
            while msggen.msg_size(m, cfg) > (6000 if big else 3000):
                del m[max((k for k in m if k != "MTI"), key=lambda k: len(m[k]) if hasattr(m[k], "__len__") else 12)]
        msgs.append(msgcodec.msg_to_json(m))
    return {"kind": "ipm_corrupt", "encoding": enc, "config": cfgj, "blocked": blocked, "messages": msgs,
            "rec_faults": [], "file_faults": [], "reader": "IpmReader", "knobs": {}}


def plan_fault(kind, k, rec, rd, enc, cfg, offsets, blocked):
    """-> (rec_faults, file_faults) or None if record k has no site for this fault kind"""
    sp = rd.spans
    E = lambda s: faults.enc_text(s, enc)  # noqa

    def first(pred):
        return next((e for e in sp["elems"] if pred(e)), None)

    if kind == "mti_undecodable":
        if enc != "ascii":
            return None
        return [{"record": k, "faults": [faults.sub(1, 0x9C, kind)]}], []
    if kind == "mti_nonnumeric":
        return [{"record": k, "faults": [faults.sub(2, E("X")[0], kind)]}], []
    if kind == "unknown_bit":
        present = {e["bit"] for e in sp["elems"]}
        free = [b for b in range(2, 128) if str(b) not in cfg and b not in present]
        if not free:
            return None
        b = free[len(free) // 2]
        off = 4 + (b - 1) // 8
        return [{"record": k, "faults": [faults.sub(off, rec[off] | (0x80 >> ((b - 1) % 8)), kind)]}], []
    if kind == "bitmap_byte_ff":
        # every bit of one bitmap byte switched on (some of them have no configuration)
        off = 4 + 1 + (k + len(rec)) % 15
        if rec[off] == 0xFF:
            return None
        return [{"record": k, "faults": [faults.sub(off, 0xFF, kind)]}], []
    if kind == "bad_prefix":
        e = first(lambda e: e["prefix"])
        if not e:
            return None
        ch = ("a", "²", "-", " ", "³")[(k + len(rec)) % 5]
        bs = E(ch)
        if len(bs) != 1 or (ch in "²³" and enc == "ascii"):
            bs = E("a")
        both = (k + len(rec)) % 5 == 3      # all blanks
        e0, e1 = e["prefix"]
        if both:
            return [{"record": k, "faults": [faults.rep(e0, e1 - e0, E(" " * (e1 - e0)), kind)]}], []
        return [{"record": k, "faults": [faults.sub(e0, bs[0], kind)]}], []
    if kind == "bad_int":
        e = first(lambda e: e.get("ptype") in ("int", "long") and e["type"] == "FIXED")
        if not e:
            return None
        return [{"record": k, "faults": [faults.sub(e["data"][1] - 1, E("z")[0], kind)]}], []
    if kind == "bad_date":
        e = first(lambda e: e.get("ptype") == "datetime")
        if not e:
            return None
        d0, d1 = e["data"]
        return [{"record": k, "faults": [faults.rep(d0, d1 - d0, E("9" * (d1 - d0)), kind)]}], []
    if kind == "bad_pds":
        e = first(lambda e: e.get("pds"))
        if not e:
            return None
        a, b = e["pds"][0]["len"]
        return [{"record": k, "faults": [faults.rep(a, 3, E("a-1"), kind)]}], []
    if kind == "icc_cut":
        e = first(lambda e: e.get("tlv"))
        if not e or not e["prefix"]:
            return None
        # rewrite DE55 so that it ends right after a tag: prefix 001, one tag byte
        a, _ = e["prefix"]
        d1 = e["data"][1]
        return [{"record": k, "faults": [faults.rep(a, d1 - a, E("001") + b"\x9a", kind)]}], []
    if kind == "overlong_prefix":
        # the LAST variable element declares more bytes than the record holds (pointer would run past the end)
        e = next((x for x in reversed(sp["elems"]) if x["prefix"]), None)
        if not e or e is not sp["elems"][-1]:
            return None
        a, b = e["prefix"]
        cur = e["data"][1] - e["data"][0]
        ls = b - a
        more = cur + (1, 2, 7)[(k + len(rec)) % 3]
        if more >= 10 ** ls:
            return None
        return [{"record": k, "faults": [faults.rep(a, ls, E(f"{more:0{ls}d}"), kind)]}], []
    if kind == "short_header":
        # the record is cut down to its MTI plus part of the bitmap (well framed at VBS level)
        keep = (4, 5, 12, 19)[(k + len(rec)) % 4]
        return [{"record": k, "faults": [{"kind": "truncate", "at": keep, "cls": kind}]}], []
    if kind == "trailing_byte":
        return [{"record": k, "faults": [{"kind": "extend", "hex": E(" ").hex(), "cls": kind}]}], []

    def to_file(p):
        if not blocked:
            return p
        blk, r = divmod(p, 1012)
        return blk * 1014 + r

    o = offsets[k - 1]
    if kind == "cut_in_data":
        return [], [{"kind": "truncate", "at": to_file(o + 4 + max(0, (len(rec)) // 2)), "cls": kind}]
    if kind == "cut_in_length":
        return [], [{"kind": "truncate", "at": to_file(o + 2), "cls": kind}]
    if kind == "cut_in_trailer":
        # blocked files: the cut falls between the two pad bytes of a block that record k's data runs through
        if not blocked:
            return None
        lo, hi = o + 4 + 1, o + 4 + len(rec)          # payload offsets strictly inside record k's data
        b = -(-lo // 1012)                            # first payload edge at or after lo
        if b * 1012 > hi or b == 0:
            return None
        return [], [{"kind": "truncate", "at": (b - 1) * 1014 + 1013, "cls": kind}]
    if kind == "oversize_length":
        # values above the maximum, including ones that look like something else: block filler (40404040),
        # blanks, the top bit, all ones
        big = (6001, 0x40404040, 106001, 0x20202020, 0xFFFFFFFF, 0x80000000, 65536)[(k + len(rec)) % 7]
        return [{"record": k, "faults": [], "length_override": big}], []
    raise ValueError(kind)


_ctl_cache = {}


def _control(scn):
    """the clean file decoded by a fresh reader (cached per message-list object)"""
    key = (id(scn["messages"]), scn.get("encoding"), bool(scn.get("blocked")))
    hit = _ctl_cache.get(key)
    if hit is not None and hit[0] is scn["messages"]:
        return hit[1], hit[2]
    clean_scn = dict(scn, rec_faults=[], file_faults=[])
    cimage, cstored = corrupt.file_image(clean_scn)
    _, cout = corrupt.run_file(dict(clean_scn, reader="IpmReader"), cimage)
    _ctl_cache.clear()
    _ctl_cache[key] = (scn["messages"], cstored, cout)
    return cstored, cout


def judge(scn, want_text=True):
    """runs IpmReader over the faulted file and applies the C10 rules; returns (fails, info)"""
    m = sut.load()
    image, stored = corrupt.file_image(scn)
    blocked = bool(scn.get("blocked"))
    stream = refmodel.payload(image) if blocked else image
    cfg = msgcodec.effective_cfg(scn.get("config", "packaged"))
    enc = scn.get("encoding") or "latin_1"
    # control: the clean file decoded by a fresh reader
    cstored, cout = _control(scn)
    if cout.kind != "stop" or len(cout.items) != len(stored):
        # the fault-free file itself does not read back (or its reader does not terminate): that is
        # C03 / C05 / C06 / C07's business; without a control there is nothing for C10 to judge
        return [], {"kind": "no_control", "delivered": 0, "recno": None, "class": None, "steps": 0}
    _, out = corrupt.run_file(dict(scn, reader="IpmReader"), image)
    info = {"kind": out.kind, "delivered": len(out.items), "recno": out.recno, "class": None, "steps": out.steps}
    fails = []
    tag = f"blk={int(blocked)}"
    if cout.kind != "stop" or len(cout.items) != len(stored):
        # the fault-free file itself does not read back: that is C03 / C05 / C06's business; without a
        # control there is nothing for C10 to judge
        info["kind"] = "no_control"
        return fails, info
    if out.kind == "budget":
        return fails, info  # C07's verdict, not C10's
    if out.kind == "foreign":
        # non-library exceptions are C07's ground in general; but when the strict reference says the faulted
        # record has no exact reading, "raises the library's data error whose record number is k" is broken too
        for rf in scn.get("rec_faults") or []:
            if rf.get("length_override") is None and rf["faults"]:
                rd = refiso.ref_read(stored[rf["record"] - 1][4:], cfg, enc, False)
                if rd.cls == refiso.REJECT:
                    fails.append({"oracle": "C10.bad_record_is_reported",
                                  "detail": f"fault {rf['faults'][0].get('cls')} in record {rf['record']}: {out.exc_type} ({out.exc_text}) "
                                            f"was raised instead of the library's data error, after {len(out.items)} records",
                                  "sig": f"C10.bad_record_is_reported|foreign|{out.exc_type}"})
        return fails, info
    # which record carries the fault, and must it be reported?
    k = None
    must = False
    fkind = None
    for rf in scn.get("rec_faults") or []:
        k = rf["record"]
        fkind = (rf["faults"][0].get("cls") if rf["faults"] else "oversize_length")
        if rf.get("length_override") is not None:
            must = rf["length_override"] > 6000
        else:
            rd = refiso.ref_read(stored[k - 1][4:], cfg, enc, False)
            info["class"] = rd.cls
            must = rd.cls == refiso.REJECT
    offsets = []
    p = 0
    for s in stored:
        offsets.append(p)
        p += len(s)
    for ff in scn.get("file_faults") or []:
        if ff["kind"] == "truncate":
            cut = refmodel.file_to_payload_offset(ff["at"]) if blocked else ff["at"]
            fkind = ff.get("cls")
            for i, o in enumerate(offsets):
                if o <= cut < o + len(stored[i]):
                    k = i + 1
                    must = cut >= o + 4  # a cut inside the length field ends the iteration instead
    j = len(out.items)
    # delivered records are the originals
    if out.items != cout.items[:j]:
        fails.append({"oracle": "C10.delivered_records_unchanged",
                      "detail": f"the {j} records delivered before the error differ from the originals",
                      "sig": f"C10.delivered_records_unchanged|{tag}"})
    if out.kind == "liberr":
        if out.recno != j + 1:
            fails.append({"oracle": "C10.error.record_number_is_the_failing_record",
                          "detail": f"{j} records delivered, error raised for the next one, but record_number == {out.recno} "
                                    f"(fault {fkind} in record {k}; original error {out.orig_type})",
                          "sig": f"C10.error.record_number_is_the_failing_record|{'msg' if out.orig_type else 'frame'}"})
        ctx = out.ctx
        o = offsets[j] if j < len(offsets) else len(stream)
        rest = stream[o:]
        okctx = (isinstance(ctx, (bytes, bytearray)) and len(ctx) >= min(4, len(rest)) and len(ctx) > 0
                 and rest[:len(ctx)] == bytes(ctx))
        why = None
        if not okctx:
            why = "is not a prefix (of at least the 4-byte length field) of the stored bytes of the failing record"
        elif len(rest) >= 4:
            ln = int.from_bytes(rest[:4], "big")
            if ln <= 6000:
                avail = rest[:4 + ln]
                if bytes(ctx) != avail:
                    why = (f"holds {len(ctx)} bytes; the failing record has {len(avail)} stored bytes "
                           f"(length prefix + {'whole record' if len(avail) == 4 + ln else 'the bytes that exist'})")
        if why:
            fails.append({"oracle": "C10.error.context_is_the_failing_records_raw_bytes",
                          "detail": f"binary_context_data {why} (fault {fkind} in record {k}, {j} delivered)",
                          "sig": f"C10.error.context_is_the_failing_records_raw_bytes|{'msg' if out.orig_type else 'frame'}"})
        if want_text and getattr(out, "exc", None) is not None:
            buf = io.StringIO()
            with contextlib.redirect_stdout(buf):
                m["cli"].print_exception_details(out.exc)
            if f"Error detected in record {j + 1}\n" not in buf.getvalue():
                fails.append({"oracle": "C10.operator_text_names_the_failing_record",
                              "detail": f"print_exception_details does not say 'Error detected in record {j + 1}': {buf.getvalue()[:120]!r}",
                              "sig": "C10.operator_text_names_the_failing_record"})
    # end to end through a command line tool: the operator sees 'Error detected in record k' and the CSV
    # holds the k-1 records before it
    tool = scn.get("tool")
    if tool and out.kind == "liberr" and scn.get("config", "packaged") == "packaged":
        fam = "ebcdic" if enc.startswith("cp") else "ascii"
        tout = decode.run_tool(image, tool, blocked, fam, encoding=enc if tool == "mci_ipm_to_csv" else None)
        info["tool"] = tout.kind
        if tout.kind == "rc":
            text = tout.stdout or ""
            rows = None
            if tout.value is not None and b"\r" not in tout.value:
                # (a bare CR inside a cell is written unquoted by the tool and read back as a row break:
                # rows are only counted when the CSV holds none - CSV fidelity is C20's ground)
                import csv
                try:
                    rows = max(0, len(list(csv.reader(io.StringIO(tout.value.decode("utf-8", "replace"), newline="")))) - 1)
                except csv.Error:
                    rows = None  # a bare CR inside an unquoted cell: the CSV cannot be counted reliably (C20's ground)
            if f"Error detected in record {j + 1}\n" not in text or (rows is not None and rows != j):
                fails.append({"oracle": "C10.tool.reports_the_failing_record",
                              "detail": f"{tool} returned {tout.rc!r}, CSV rows {rows} (expected {j}), operator text "
                                        f"{'names' if f'Error detected in record {j + 1}' in text else 'does not name'} record {j + 1} "
                                        f"(fault {fkind} in record {k})",
                              "sig": f"C10.tool.reports_the_failing_record|{tool}"})
    if must and k is not None:
        if out.kind != "liberr":
            fails.append({"oracle": "C10.bad_record_is_reported",
                          "detail": f"fault {fkind} in record {k} (no exact reading exists) but iteration ended with {out.kind} after {j} records",
                          "sig": f"C10.bad_record_is_reported|{fkind}"})
        elif j != k - 1:
            fails.append({"oracle": "C10.records_before_the_bad_one_are_delivered",
                          "detail": f"fault {fkind} in record {k}: {j} records were delivered before the error (expected {k - 1})",
                          "sig": f"C10.records_before_the_bad_one_are_delivered|{fkind}"})
    elif k is not None and out.kind == "stop" and fkind == "cut_in_length":
        if j != k - 1:
            fails.append({"oracle": "C10.records_before_the_bad_one_are_delivered",
                          "detail": f"cut inside the length field of record {k}: {j} records delivered (expected {k - 1})",
                          "sig": "C10.records_before_the_bad_one_are_delivered|cut_in_length"})
    info["must"] = must
    return fails, info


def judge_continued(scn):
    """two bad records, the first one at message level (framing intact); the application catches the first
    error and keeps iterating the same reader.  Judged conservatively: IF a second data error is raised for
    the later bad record, it must carry that record's number and bytes, and the records delivered in
    between must be the originals.  A reader that simply stops after its first error is not judged."""
    image, stored = corrupt.file_image(scn)
    cstored, cout = _control(scn)
    if cout.kind != "stop" or len(cout.items) != len(stored):
        return []
    _, out = corrupt.run_file(dict(scn, reader="IpmReader", style="continue"), image)
    if out.kind in ("foreign", "budget") or len(out.errors) < 2:
        return []
    k1, k2 = sorted(rf["record"] for rf in scn["rec_faults"])[:2]
    (n1, r1, c1, t1), (n2, r2, c2, t2) = out.errors[0], out.errors[1]
    fails = []
    if n1 != k1 - 1 or r1 != k1:
        return []      # the single-fault rules (judge) own the first error
    if t1 is None:
        # the first error was raised at FRAMING level (e.g. the fault pushed the record over the maximum
        # length): the reader's position in the file is then undefined and continuing means nothing
        return []
    # records k1+1 .. k2-1 must have been delivered in between
    want_between = cout.items[k1:k2 - 1]
    got_between = out.items[n1:n2]
    if n2 - n1 == len(want_between) and got_between == want_between:
        if r2 != k2:
            fails.append({"oracle": "C10.continued.second_bad_record_reported_with_its_own_number",
                          "detail": f"bad records {k1} and {k2}; after the error for record {k1} the application kept iterating: "
                                    f"{len(want_between)} good records followed, then an error with record_number == {r2} (expected {k2})",
                          "sig": "C10.continued.second_bad_record_reported_with_its_own_number"})
        elif t2 is not None and bytes(c2 or b"") != stored[k2 - 1]:
            fails.append({"oracle": "C10.continued.second_bad_record_context",
                          "detail": f"second error (record {k2}) carries {len(c2 or b'')} context bytes, the record has {len(stored[k2 - 1])}",
                          "sig": "C10.continued.second_bad_record_context"})
    return fails


def judge_churn(scn):
    """configuration churn: many short-lived configuration objects, alternately with and without one bit,
    each used by a fresh reader on the same one-record file (anything remembered per configuration OBJECT -
    e.g. by id() - is stale as soon as an address is reused).  Returns (fails, evaluations)."""
    import copy as _copy
    image, stored = corrupt.file_image(dict(scn, rec_faults=[], file_faults=[]))
    enc = scn.get("encoding") or "latin_1"
    pk = msgcodec.packaged_bit_config()
    rec = stored[0][4:]
    rd = refiso.ref_read(rec, pk, enc, False)
    present = {e["bit"] for e in rd.spans["elems"]}
    cand = [b for b in (22, 24, 25, 38, 40, 41, 42, 49, 50, 51, 73) if b not in present]
    if rd.cls != refiso.ACCEPT or not cand:
        return [], 0
    xb = cand[(scn["churn"]["seed"] >> 3) % len(cand)]
    w = pk[str(xb)]["field_length"]
    pos = len(rec)
    for e in rd.spans["elems"]:
        if e["bit"] > xb:
            pos = e["prefix"][0] if e["prefix"] else e["data"][0]
            break
    bm = bytearray(rec[4:20])
    bm[(xb - 1) // 8] |= 0x80 >> ((xb - 1) % 8)
    rec2 = rec[:4] + bytes(bm) + rec[20:pos] + faults.enc_text("Q" * w, enc) + rec[pos:]
    image2 = len(rec2).to_bytes(4, "big") + rec2 + b"\x00\x00\x00\x00"
    fails = []
    n = scn["churn"]["iterations"]
    ctl = decode.run_reader(image2, "IpmReader", False, enc=enc, cfg=_copy.deepcopy(pk))
    if ctl.kind != "stop" or len(ctl.items) != 1:
        return [], 0        # the record is not even readable under the plain configuration: not C10's ground
    one = _copy.deepcopy(pk)             # ONE caller-owned configuration edited in place between readers
    for it in range(n):
        same_object = it >= n // 2
        cfg_it = one if same_object else _copy.deepcopy(pk)
        if same_object and str(xb) not in cfg_it:
            cfg_it[str(xb)] = _copy.deepcopy(pk[str(xb)])
        if it % 2:
            del cfg_it[str(xb)]          # this configuration does not know bit xb
        out = decode.run_reader(image2, "IpmReader", False, enc=enc, cfg=cfg_it)
        want_error = bool(it % 2)
        if out.kind in ("budget", "foreign"):
            break        # non-termination / foreign exceptions are C07's ground; nothing for the churn oracle
        ok = (out.kind == "liberr" and out.recno == 1) if want_error else (out.kind == "stop" and len(out.items) == 1)
        if not ok and not fails:
            fails.append({"oracle": "C10.bad_record_is_reported" if want_error else "C10.control.clean_file_reads_back",
                          "detail": f"reader #{it + 1} of {n}, each with a freshly built configuration {'without' if want_error else 'with'} "
                                    f"bit {xb}: a record flagging bit {xb} gave {out.kind} ({len(out.items)} records delivered)",
                          "sig": "C10.config_churn|" + ("unknown_bit_not_reported" if want_error else "known_bit_refused"),
                          "scenario": scn})
        if not same_object:
            del cfg_it
    return fails, n


def run_file_seed(seed_i, tier, part):
    base = gen_file(seed_i, nmax=10 if tier == "quick" else 14)
    image, stored = corrupt.file_image(base)
    cfg = msgcodec.effective_cfg(base["config"])
    enc = base["encoding"]
    offsets = []
    p = 0
    for s in stored:
        offsets.append(p)
        p += len(s)
    c = part["counters"]
    part["runs"] += 1
    c[f"knob:enc={enc},blocked={int(base['blocked'])},cfg={'packaged' if base['config'] == 'packaged' else 'generated'},n={len(stored)}"] += 1
    fd = hashlib.sha1(image).hexdigest()[:12]
    hangs = 0
    h = hashlib.sha256(canon(base).encode())
    n = len(stored)
    ks = range(1, n + 1) if n <= 10 else sorted(set([1, 2, n // 2, n - 1, n, 11, 12, 16, 17, 32, 33]) & set(range(1, n + 1)))
    for k in ks:
        rec = stored[k - 1][4:]
        rd = refiso.ref_read(rec, cfg, enc, False)
        for kind in MSG_FAULTS + FRAME_FAULTS:
            pf = plan_fault(kind, k, rec, rd, enc, cfg, offsets, base["blocked"])
            if pf is None:
                c[f"probe:no_site_for_{kind}"] += 1
                continue
            scn = dict(base, rec_faults=pf[0], file_faults=pf[1], planned={"kind": kind, "record": k})
            # how the application drives the reader: one for loop, next() only, or iteration resumed on the
            # same reader after some records were taken (header = next(reader); for rec in reader: ...)
            sel = (k * 7 + len(kind)) % 5
            if sel == 1:
                scn["style"] = "next"
            elif sel == 2 and k >= 2:
                scn["style"] = f"resume:{1 + (k + len(kind)) % (k - 1)}"
            elif sel == 3 and k >= 2:
                scn["style"] = f"twice:{1 + (k + len(kind)) % (k - 1)}"
            if (k + len(kind)) % 4 == 1:
                scn["pipe"] = True   # the file arrives through a non-seekable stream
            if base["config"] == "packaged" and (k + len(kind)) % 3 == 0:
                if enc in ("latin_1", "cp500") and (k + len(kind)) % 2 == 0:
                    scn["tool"] = "mideu"
                else:
                    scn["tool"] = "mci_ipm_to_csv"
            if hangs >= 3:
                continue
            fails, info = judge(scn)
            if info["kind"] == "budget":
                hangs += 1
                if hangs >= 3:
                    c["probe:base_abandoned_after_repeated_nontermination"] += 1
            part["evals"] += 1
            part["events"] += 1
            part["steps"] += info.get("steps", 0)
            c[f"fault:{kind}"] += 1
            c[f"outcome:{kind}:{info['kind']}" + (":must" if info.get("must") else "")] += 1
            if k > 1 and info["kind"] == "liberr":
                c["probe:error_raised_at_record_beyond_first"] += 1
            if k > 10 and info["kind"] == "liberr":
                c["probe:error_raised_beyond_tenth_record"] += 1
            if len(rec) > 1024:
                c["probe:faulted_record_longer_than_1024_bytes"] += 1
            if len(rec) > 4096:
                c["probe:faulted_record_longer_than_4096_bytes"] += 1
            if info.get("tool"):
                c[f"probe:reported_through_tool_{scn['tool']}"] += 1
            c[f"knob:reader_driven_by={scn.get('style', 'for').split(':')[0]}"] += 1
            part["sigs"].add(sig64("C10", fd, k, kind))
            h.update(f"{k},{kind},{info['kind']},{info['delivered']},{info['recno']};".encode())
            for v in fails:
                if sum(1 for x in part["fails"] if x["sig"] == v["sig"]) < 1 and len(part["fails"]) < 12:
                    v["scenario"] = scn
                    part["fails"].append(v)
    # two bad records, iteration continued after the first (message-level) error
    if n >= 3 and hangs < 3:
        rng = Streams(seed_i)["faults"]
        for _ in range(6):
            k1 = rng.randint(1, n - 1)
            k2 = rng.randint(k1 + 1, n)
            kind1 = rng.choice(["bad_int", "bad_prefix", "unknown_bit", "trailing_byte", "bad_date"])
            kind2 = rng.choice(["bad_int", "bad_prefix", "unknown_bit", "trailing_byte", "mti_nonnumeric", "oversize_length"])
            pf = []
            for kk, kind in ((k1, kind1), (k2, kind2)):
                rec = stored[kk - 1][4:]
                rd = refiso.ref_read(rec, cfg, enc, False)
                one = plan_fault(kind, kk, rec, rd, enc, cfg, offsets, base["blocked"]) if rd.cls == refiso.ACCEPT else None
                pf.append(one)
            if pf[0] is None or pf[1] is None:
                continue
            scn = dict(base, rec_faults=pf[0][0] + pf[1][0], file_faults=[], continued=True)
            fails = judge_continued(scn)
            part["evals"] += 1
            c["fault:two_bad_records_iteration_continued"] += 1
            part["sigs"].add(sig64("C10c", fd, k1, k2, kind1, kind2))
            for v in fails:
                if sum(1 for x in part["fails"] if x["sig"] == v["sig"]) < 1 and len(part["fails"]) < 12:
                    v["scenario"] = scn
                    part["fails"].append(v)
    if base["config"] == "packaged" and n >= 1 and hangs < 3:
        cf, nev = judge_churn(dict(base, churn={"seed": seed_i, "iterations": 40}))
        part["evals"] += nev
        c["fault:configuration_object_churn"] += nev
        for v in cf:
            if len(part["fails"]) < 12:
                part["fails"].append(v)
    part["digests"].append(h.hexdigest()[:16])
    if len(part["samples"]) < 1 and len(stored) >= 2:
        from .c09 import _brief
        part["samples"].append(_brief(dict(base, rec_faults=[{"record": 2, "faults": [faults.sub(2, 0x58, "mti_nonnumeric")]}])))


def plan(tier, seed, wave):
    if tier == "quick":
        if wave > 0:
            return []
        n = 72
    else:
        n = 384
    return [{"seed": seed, "start": wave * n + j, "n": 1, "tier": tier} for j in range(n)]


def run_task(task):
    from ..engine import new_partial
    part = new_partial()
    for i in range(task["start"], task["start"] + task["n"]):
        try:
            run_file_seed(sub_seed(task["seed"], ID, i), task["tier"], part)
        except corrupt.BaseNotWritable:
            part["counters"]["probe:base_object_not_writable"] += 1
    return part


def digest_slice(seed):
    try:
        return _digest_slice(seed)
    except corrupt.BaseNotWritable:
        return "base-object-not-writable"


def _digest_slice(seed):
    from ..engine import new_partial
    part = new_partial()
    for i in range(2):
        run_file_seed(sub_seed(seed, ID, i), "quick", part)
    return hashlib.sha256("".join(part["digests"]).encode()).hexdigest()[:16]


def judge_scenario(scn):
    if scn.get("churn"):
        return judge_churn(scn)[0]
    if scn.get("continued"):
        return judge_continued(scn)
    return judge(scn)[0]


def replan(scn):
    """rec_faults / file_faults recomputed for the scenario's `planned` (kind, record) on its current messages"""
    pl = scn.get("planned")
    if not pl:
        return scn
    base = dict(scn, rec_faults=[], file_faults=[])
    image, stored = corrupt.file_image(base)
    k = pl["record"]
    if not (1 <= k <= len(stored)):
        return None
    cfg = msgcodec.effective_cfg(scn.get("config", "packaged"))
    enc = scn.get("encoding") or "latin_1"
    rec = stored[k - 1][4:]
    rd = refiso.ref_read(rec, cfg, enc, False)
    if rd.cls != refiso.ACCEPT:
        return None
    offsets = []
    p = 0
    for st in stored:
        offsets.append(p)
        p += len(st)
    pf = plan_fault(pl["kind"], k, rec, rd, enc, cfg, offsets, bool(scn.get("blocked")))
    if pf is None:
        return None
    return dict(scn, rec_faults=pf[0], file_faults=pf[1])


def minimise(scn, oracle):
    """fewer records around the faulted one (renumbering k), fewer keys per message; the planned fault is
    re-planned on every candidate because its offsets move with the messages"""
    from .. import shrink
    dl = shrink.Deadline(120)

    def ok(c):
        try:
            c = replan(c)
            return c is not None and any(f["oracle"] == oracle for f in judge_scenario(c))
        except Exception:
            return False

    cur = dict(scn)
    if cur.get("churn") or cur.get("continued") or not cur.get("planned") or not ok(cur):
        return scn
    k = cur["planned"]["record"]
    if cur.get("blocked") and ok(dict(cur, blocked=False)):
        cur = dict(cur, blocked=False)
    if cur.get("tool") and ok({x: y for x, y in cur.items() if x != "tool"}):
        cur = {x: y for x, y in cur.items() if x != "tool"}
    while len(cur["messages"]) > k and not dl.over():
        cand = dict(cur, messages=cur["messages"][:-1])
        if ok(cand):
            cur = cand
        else:
            break
    while k > 1 and not dl.over():
        cand = dict(cur, messages=cur["messages"][1:], planned=dict(cur["planned"], record=k - 1))
        if ok(cand):
            cur = cand
            k -= 1
        else:
            break
    for i in range(len(cur["messages"])):
        if dl.over():
            break
        msg = cur["messages"][i]
        keys = [x for x in msg if x != "MTI"]

        def tk(ks, i=i, msg=msg):
            ms = list(cur["messages"])
            ms[i] = {x: y for x, y in msg.items() if x == "MTI" or x in ks}
            return ok(dict(cur, messages=ms))
        ks = shrink.ddmin(keys, tk, dl)
        ms = list(cur["messages"])
        ms[i] = {x: y for x, y in msg.items() if x == "MTI" or x in ks}
        cur = dict(cur, messages=ms)
    return replan(cur) or scn
