"""C08 - decoding accepts exactly the well-framed messages and never mis-frames one.

Same corruption simulation as C07 with the 'an operation may fail, but never return wrong data'
oracle: completeness against the strict reference reader (ACCEPT inputs must be accepted and read
identically), soundness by the tiling checker on everything the decoder returns.
"""
import hashlib
import re

from .. import corrupt, faults, msgcodec, refiso, sut
from ..kernel import Streams, sub_seed, sig64, canon, hexspec
from ..simfs import apply_faults
from . import decfam, c07

ID = "C08"
LEVEL = "exploration"
BUDGET_S = {"quick": 0, "thorough": 900}
RULE = ("case = (message bytes near the valid language, decoder). Seeded well-formed messages (latin_1/ascii/cp500/cp037, "
        "binary and hex bitmap, packaged and generated configurations) and their faulted forms: odd numerals (sign, space, "
        "underscore, non-ASCII digits) in every length prefix and PDS sub-length, directed negative / zero / swallow-to-end / "
        "past-the-end splices laid out so that a naive pointer walk still ends at the end of the message, consistent edits "
        "that keep the message well-framed (zero-length, grown, shrunk variable fields; element + bit removed / added), "
        "single-byte substitutions at every framing site, truncation / extension, random mutations; decoded by loads and, "
        "re-framed inside IPM files, by IpmReader. distinct = distinct sha1 of faulted bytes + (reference class, decoder "
        "outcome); non-trivial = bytes differ from the clean message")
COMPONENTS = {
    "real": ["cardutil.iso8583.loads", "cardutil.iso8583.dumps (clean messages)", "cardutil.mciipm.IpmReader",
             "cardutil.mciipm.IpmWriter (clean files)"],
    "stub": ["SimFile", "disk fault applier"],
    "reference": ["refiso.ref_read (strict reader: ACCEPT / REJECT / DONTCARE)", "refiso.check_tiling",
                  "refiso.compare_reading"],
}
ASSUMPTIONS = ["numerals that are not plain decimal digits but that Python's int() reads as non-negative, non-numeric MTI, "
               "malformed PDS / TLV content inside a well-framed carrier, bit 128 and upper-case hex bitmaps are don't-care "
               "for acceptance; whatever is accepted must still tile the message exactly",
               "the strict reference reader (about 200 lines, written from the module documentation) is part of the trusted base"]

_num = re.compile(r"[0-9]+")


def _cls(reason):
    """coarse class of a reason text: quoted values, numbers and anything in parentheses removed"""
    r = reason or ""
    r = r.split(" (")[0]
    r = re.sub(r"returned value .* is not", "returned value is not", r, flags=re.S)
    r = re.sub(r"'[^']*'|\"[^\"]*\"", "..", r)
    r = _num.sub("#", r)
    return " ".join(r.split()[:9])


def judge_c08(b, out, cfg, enc, hexb, via="loads"):
    """-> (fails, reference class)"""
    if out.kind not in ("dict", "liberr"):
        return [], None
    rd = refiso.ref_read(b, cfg, enc, hexb)
    fails = []
    if out.kind == "dict":
        t = refiso.check_tiling(out.value, b, cfg, enc, hexb)
        if t:
            fails.append({"oracle": "C08.soundness.returned_elements_tile_the_message",
                          "detail": f"{via} accepted {len(b)} bytes but: {t} (reference: {rd.cls} {rd.reason or ''})",
                          "sig": f"C08.soundness.returned_elements_tile_the_message|{_cls(t)}"})
        elif rd.cls == refiso.REJECT:
            fails.append({"oracle": "C08.soundness.unreadable_message_accepted",
                          "detail": f"{via} accepted a message that has no exact reading: {rd.reason}",
                          "sig": f"C08.soundness.unreadable_message_accepted|{_cls(rd.reason)}"})
        elif rd.cls == refiso.ACCEPT:
            d = refiso.compare_reading(rd, out.value)
            if d:
                fails.append({"oracle": "C08.completeness.reading_agrees_with_reference",
                              "detail": f"{via}: well-framed message read differently: {d[:3]}",
                              "sig": f"C08.completeness.reading_agrees_with_reference|{_cls(d[0])}"})
    else:
        if rd.cls == refiso.ACCEPT:
            fails.append({"oracle": "C08.completeness.wellframed_message_accepted",
                          "detail": f"{via} refused a well-framed message ({len(b)} bytes): {out.exc_type}: {out.exc_text}",
                          "sig": f"C08.completeness.wellframed_message_accepted|{_cls(out.exc_text)}"})
    return fails, rd.cls


def judge_scenario(scn):
    if scn.get("churn"):
        return judge_churn(scn)[0]
    if scn["kind"] in ("msg_corrupt",) or (scn["kind"] == "raw_bytes" and scn.get("as") == "message"):
        b, out, cfg, enc, hexb = corrupt.run_message(scn)
        return judge_c08(b, out, cfg, enc, hexb)[0]
    return judge_file(scn)[0]


def judge_file(scn):
    """IpmReader over a file whose record k carries message-level faults (re-framed)"""
    image, stored = corrupt.file_image(scn)
    _, out = corrupt.run_file(dict(scn, reader="IpmReader"), image)
    cfg = msgcodec.effective_cfg(scn.get("config", "packaged"))
    enc = scn.get("encoding") or "latin_1"
    fails = []
    classes = []
    if out.kind not in ("stop", "liberr"):
        return fails, classes, out
    from ..decode import Outcome
    for i, item in enumerate(out.items):
        o = Outcome()
        o.kind, o.value = "dict", item
        f, cls = judge_c08(stored[i][4:], o, cfg, enc, False, via=f"IpmReader record {i + 1}")
        fails += f
        classes.append(cls)
    if out.kind == "liberr" and out.orig_type == "Iso8583DataError" and len(out.items) < len(stored):
        o = Outcome()
        o.kind, o.exc_type, o.exc_text = "liberr", out.exc_type, out.exc_text
        f, cls = judge_c08(stored[len(out.items)][4:], o, cfg, enc, False, via=f"IpmReader record {len(out.items) + 1}")
        fails += f
        classes.append(cls)
    return fails, classes, out


def _record(part, fails, scn):
    for v in fails:
        if sum(1 for x in part["fails"] if x["sig"] == v["sig"]) < 1 and len(part["fails"]) < 12:
            v["scenario"] = scn
            part["fails"].append(v)


def run_msg_base(seed_i, tier, part, directed=True):
    base = decfam.gen_base(seed_i)
    clean, rd0, cfg = decfam.clean_and_reading(base)
    rng = Streams(seed_i)["faults"]
    c = part["counters"]
    c[f"knob:enc={base['encoding']},hex={int(base['hex_bitmap'])},cfg={'packaged' if base['config'] == 'packaged' else 'generated'}"] += 1
    part["runs"] += 1
    hangs = 0
    h = hashlib.sha256(canon(base).encode())
    for fl in decfam.plan_message_faults(base, clean, rd0, tier, rng, directed=directed):
        b = apply_faults(clean, fl)
        scn = dict(base, faults=fl)
        _, out, _, enc, hexb = corrupt.run_message(scn, b)
        if out.kind == "budget":
            hangs += 1
            if hangs >= 3:
                # non-termination is C07's verdict; every further case of this base would burn a whole budget
                c["probe:base_abandoned_after_repeated_nontermination"] += 1
                break
        fails, cls = judge_c08(b, out, cfg, enc, hexb)
        part["evals"] += 1
        part["steps"] += out.steps
        part["events"] += 1
        oc = {"dict": "accepted", "liberr": "refused"}.get(out.kind, out.kind)
        c[f"outcome:ref={cls},impl={oc}"] += 1
        for k in faults.fault_class(fl).split("+"):
            c[f"fault:{k}"] += 1
        if b != clean:
            part["sigs"].add(sig64(hashlib.sha1(b).digest(), cls, oc))
        h.update(f"{cls},{out.kind},{len(fails)};".encode())
        _record(part, fails, scn)
    if base["config"] == "packaged" and hangs < 3:
        cf, nev = judge_churn(dict(base, faults=[], churn={"iterations": 40}))
        part["evals"] += nev
        c["fault:configuration_object_churn"] += nev
        for v in cf:
            if sum(1 for x in part["fails"] if x["sig"] == v["sig"]) < 1 and len(part["fails"]) < 12:
                part["fails"].append(v)
    part["digests"].append(h.hexdigest()[:16])
    if len(part["samples"]) < 1:
        sp = [f for f in faults.splice_faults(clean, rd0.spans, base["encoding"])]
        part["samples"].append(dict(base, faults=sp[0] if sp else []))


def run_file_base(seed_i, tier, part):
    base = decfam.gen_file_base(seed_i, nmax=5)
    rng = Streams(seed_i)["faults"]
    image, stored = corrupt.file_image(base)
    cfg = msgcodec.effective_cfg(base["config"])
    part["runs"] += 1
    c = part["counters"]
    fhangs = 0
    for k in range(len(stored)):
        rec = stored[k][4:]
        rd = refiso.ref_read(rec, cfg, base["encoding"], False)
        if rd.cls != "ACCEPT":
            continue
        plans = list(faults.numeral_faults(rd.spans, base["encoding"])) + list(faults.splice_faults(rec, rd.spans, base["encoding"])) \
            + faults.consistent_edits(rec, rd.spans, base["encoding"], cfg, False, rng)
        for fl in rng.sample(plans, min(len(plans), 25 if tier == "quick" else 100)):
            if fhangs >= 3:
                break
            scn = dict(base, rec_faults=[{"record": k + 1, "faults": fl}], reader="IpmReader")
            fails, classes, out = judge_file(scn)
            fhangs += 1 if out.kind == "budget" else 0
            part["evals"] += 1
            part["steps"] += out.steps
            part["events"] += 1
            c[f"outcome:file:{out.kind}"] += 1
            for kk in faults.fault_class(fl).split("+"):
                c[f"fault:rec:{kk}"] += 1
            part["sigs"].add(sig64("file", canon(scn["rec_faults"]), seed_i))
            _record(part, fails, scn)


def judge_churn(scn):
    """configuration churn: the same bytes decoded again and again by fresh configuration objects that
    alternate between the packaged configuration and a variant in which one present variable element is
    LLLVAR instead of LLVAR (or one present element has no configuration); each decode is judged against
    the reference for the configuration it was given.  Catches state remembered per configuration OBJECT."""
    import copy as _copy
    from ..decode import run_loads
    b = corrupt.clean_message_bytes(scn)
    enc = scn.get("encoding") or "latin_1"
    hexb = scn.get("hex_bitmap", False)
    pk = msgcodec.packaged_bit_config()
    rd = refiso.ref_read(b, pk, enc, hexb)
    ll = next((e for e in rd.spans["elems"] if e["type"] == "LLVAR" and not e.get("proc")), None)
    anyel = rd.spans["elems"][-1] if rd.spans["elems"] else None
    fails = []
    n = scn["churn"]["iterations"]
    one = _copy.deepcopy(pk)          # ONE caller-owned object edited in place between decodes
    for it in range(n):
        same_object = it >= n // 2
        cfg = one if same_object else _copy.deepcopy(pk)
        if same_object:
            # restore, then (every other time) edit in place: replace / delete top-level entries
            for k in list(cfg):
                if k not in pk:
                    del cfg[k]
            for k in pk:
                cfg[k] = _copy.deepcopy(pk[k])
        if it % 2:
            if ll is not None and (it // 2) % 2 == 0:
                cfg[str(ll["bit"])] = dict(cfg[str(ll["bit"])], field_type="LLLVAR")
            elif anyel is not None:
                del cfg[str(anyel["bit"])]
        out = run_loads(b, cfg, scn.get("encoding"), hexb)
        if out.kind in ("budget", "foreign"):
            break        # C07's ground
        how = "one configuration object edited in place between decodes" if same_object else "a fresh configuration object each time"
        f, cls = judge_c08(b, out, _copy.deepcopy(cfg), enc, hexb, via=f"loads #{it + 1} of {n} ({how})")
        for v in f:
            v["sig"] = "C08.config_churn|" + v["oracle"]
            v["scenario"] = scn
        if f and not fails:
            fails += f[:1]
        if not same_object:
            del cfg
    return fails, n


def plan(tier, seed, wave):
    if tier == "quick":
        if wave > 0:
            return []
        nm, nf = 64, 24
    else:
        nm, nf = 64, 48   # per wave; waves repeat until VERIF_BUDGET_S is used
    tasks = []
    for j in range(nm):
        tasks.append({"fam": "msg", "seed": seed, "start": wave * nm + j, "n": 1, "tier": tier})
    for j in range(nf):
        tasks.append({"fam": "file", "seed": seed, "start": wave * nf + j, "n": 1, "tier": tier})
    return tasks


def run_task(task):
    from ..engine import new_partial
    part = new_partial()
    for i in range(task["start"], task["start"] + task["n"]):
        s = sub_seed(task["seed"], ID, task["fam"], i)
        try:
            if task["fam"] == "msg":
                run_msg_base(s, task["tier"], part)
            else:
                run_file_base(s, task["tier"], part)
        except corrupt.BaseNotWritable:
            part["counters"]["probe:base_object_not_writable"] += 1
    return part


def digest_slice(seed):
    try:
        return _digest_slice(seed)
    except corrupt.BaseNotWritable:
        return "base-object-not-writable"


def _digest_slice(seed):
    from ..engine import new_partial
    part = new_partial()
    for i in range(3):
        run_msg_base(sub_seed(seed, ID, "msg", i), "quick", part, directed=False)
    return hashlib.sha256("".join(part["digests"]).encode()).hexdigest()[:16]


def minimise(scn, oracle):
    if scn.get("churn"):
        return scn
    return c07.minimise_corrupt(scn, oracle, judge_scenario)


def finalize(total, tier):
    probs = []
    c = total["counters"]
    need = ["outcome:ref=ACCEPT,impl=accepted", "outcome:ref=REJECT,impl=refused", "outcome:ref=DONTCARE,impl=accepted",
            "fault:splice_negative", "fault:splice_zero_length", "fault:edit_zero_length_var", "fault:edit_add_element"]
    for p in need:
        if c.get(p, 0) == 0:
            probs.append(f"reach probe {p} stayed at zero")
    return {}, probs
