#!/usr/bin/env python3
"""Confirm and evaluate independently seeded breaking changes.

usage: tools/seeded.py confirm <dir>            # dir holds patch.diff + demo.py (+ notes.md)
       tools/seeded.py check <dir> <Cnn> [tier] # run ./check Cnn against the change
       tools/seeded.py all                       # every /verif/seeded/<id>: confirm + check, table

Everything runs in a scratch git worktree of /repo under /tmp (removed afterwards); /repo itself is
never modified.  `confirm` verifies what a kept change must satisfy: the patch applies, the
repository's test suite still passes with it, the demonstration fails with it and passes without it.
"""
import json
import os
import shutil
import subprocess
import sys
import tempfile

VERIF = os.path.dirname(os.path.dirname(os.path.abspath(__file__)))
PY = "/venv/bin/python"


def sh(cmd, cwd=None, env=None, timeout=3600):
    try:
        r = subprocess.run(cmd, cwd=cwd, env=env, capture_output=True, text=True, timeout=timeout)
    except subprocess.TimeoutExpired:
        return 124, f"TIMEOUT after {timeout}s: {' '.join(cmd)}"
    return r.returncode, r.stdout + r.stderr


class Worktree:
    def __init__(self, patch=None):
        self.dir = tempfile.mkdtemp(prefix="seedchk-")
        os.rmdir(self.dir)
        rc, out = sh(["git", "-C", "/repo", "worktree", "add", "--detach", self.dir, "HEAD"])
        if rc:
            raise RuntimeError(out)
        self.applied = None
        if patch:
            rc, out = sh(["git", "-C", self.dir, "apply", os.path.abspath(patch)])
            self.applied = (rc == 0, out)

    def close(self):
        sh(["git", "-C", "/repo", "worktree", "remove", "--force", self.dir])
        shutil.rmtree(self.dir, ignore_errors=True)
        sh(["git", "-C", "/repo", "worktree", "prune"])

    def __enter__(self):
        return self

    def __exit__(self, *a):
        self.close()


def run_demo(wt, demo):
    shutil.copy(demo, os.path.join(wt.dir, "_demo.py"))
    env = dict(os.environ, PYTHONDONTWRITEBYTECODE="1")
    env.pop("PYTHONPATH", None)
    rc, out = sh(["timeout", "120", PY, "_demo.py"], cwd=wt.dir, env=env)
    os.remove(os.path.join(wt.dir, "_demo.py"))
    return rc, out


def confirm(d):
    patch, demo = os.path.join(d, "patch.diff"), os.path.join(d, "demo.py")
    res = {}
    with Worktree() as clean:
        rc, out = run_demo(clean, demo)
        res["demo_on_clean_exit"] = rc
    with Worktree(patch) as wt:
        res["patch_applies"] = wt.applied[0]
        if not wt.applied[0]:
            res["apply_output"] = wt.applied[1][-300:]
            return res
        env = dict(os.environ, PYTHONDONTWRITEBYTECODE="1")
        env.pop("PYTHONPATH", None)
        rc, out = sh([PY, "-c", "import cardutil; print(cardutil.__file__)"], cwd=wt.dir, env=env)
        res["imports_from_worktree"] = wt.dir in out
        rc, out = sh([PY, "-m", "pytest", "-q", "-p", "no:cacheprovider", "--timeout=900"], cwd=wt.dir, env=env)
        res["suite_exit_with_change"] = rc
        res["suite_tail"] = out.strip().splitlines()[-1] if out.strip() else ""
        rc, out = run_demo(wt, demo)
        res["demo_with_change_exit"] = rc
        res["demo_with_change_tail"] = out.strip()[-300:]
    res["confirmed"] = bool(res.get("patch_applies") and res.get("imports_from_worktree")
                            and res.get("suite_exit_with_change") == 0
                            and res.get("demo_with_change_exit") not in (0, None)
                            and res.get("demo_on_clean_exit") == 0)
    return res


def check(d, pid, tier="quick", seed=None):
    patch = os.path.join(d, "patch.diff")
    with Worktree(patch) as wt:
        out_dir = tempfile.mkdtemp(prefix="seedchk-out-")
        env = dict(os.environ, CARDSIM_REPO=wt.dir, CARDSIM_OUT=out_dir)
        if seed is not None:
            env["VERIF_SEED"] = str(seed)
        rc, out = sh([os.path.join(VERIF, "check"), pid, "--tier", tier], env=env)
        res = {"property": pid, "tier": tier, "exit": rc,
               "violations": [l for l in out.splitlines() if l.startswith("VIOLATION")][:4],
               "oracles": [l.strip() for l in out.splitlines() if l.strip().startswith("oracle ")][:4],
               "tail": out.strip().splitlines()[-3:]}
        # keep the first replay file next to the seeded change (scenario only, small)
        if res["violations"]:
            path = res["violations"][0].split("replay=")[1].strip()
            try:
                with open(path) as f:
                    res["replay"] = json.load(f)
            except Exception:
                pass
        shutil.rmtree(out_dir, ignore_errors=True)
    return res


PROPS = ["C03", "C04", "C05", "C06", "C07", "C08", "C09", "C10", "C11"]


def matrix(argv):
    """every seeded change x every check (quick tier): which checks fire.  Writes seeded/matrix.json
    and seeded/RESULTS.md.  --jobs N runs N checks at a time."""
    import concurrent.futures
    jobs = int(argv[argv.index("--jobs") + 1]) if "--jobs" in argv else 3
    only = argv[argv.index("--only") + 1] if "--only" in argv else None
    targets_only = "--targets-only" in argv          # each change against the check expected to fire only
    sample = "--off-target-sample" in argv           # plus every check for a fixed sample of changes
    root = os.path.join(VERIF, "seeded")
    names = sorted(n for n in os.listdir(root) if os.path.isdir(os.path.join(root, n)) and (not only or only in n))
    os.environ["VERIF_WORKERS"] = str(max(2, 16 // jobs))
    path = os.path.join(root, "matrix.json")
    results = json.load(open(path)) if os.path.exists(path) else {}

    def one(name, pid):
        r = check(os.path.join(root, name), pid)
        rep = r.pop("replay", None)
        r["replay_scenario_bytes"] = len(json.dumps(rep["scenario"])) if rep else None
        return name, pid, r

    with concurrent.futures.ThreadPoolExecutor(max_workers=jobs) as ex:
        pairs = []
        for i, n in enumerate(names):
            meta = json.load(open(os.path.join(root, n, "meta.json")))
            tgt = meta.get("detected_by", meta["property"])
            for p in PROPS:
                if not targets_only or p in (tgt, meta["property"]) or (sample and i % 4 == 0):
                    if n in results and p in results[n] and "--resume" in argv:
                        continue
                    pairs.append((n, p))
        futs = [ex.submit(one, n, p) for n, p in pairs]
        for f in concurrent.futures.as_completed(futs):
            name, pid, r = f.result()
            results.setdefault(name, {})[pid] = {"exit": r["exit"], "oracles": r["oracles"][:2], "tail": r["tail"][-1:]}
            print(name, pid, r["exit"], (r["oracles"] or [""])[0][:90])
            sys.stdout.flush()
            with open(path, "w") as g:
                json.dump(results, g, indent=1, sort_keys=True)
    write_results_md(results)
    return 0


def write_results_md(results):
    root = os.path.join(VERIF, "seeded")
    lines = ["# Seeded breaking changes: which check catches which change", "",
             "Generated by `tools/seeded.py matrix` (quick tier of every check against every change, in scratch worktrees).",
             "`V` = VIOLATION (exit 1), `.` = clean (exit 0), `E` = harness error (exit 2), `?` = not run (every change was run",
             "against the check expected to fire; every fourth change against all nine checks). The column of the property the",
             "change was written against is marked with brackets (round brackets when, by the property's own text, the",
             "change is not a violation of that property and another check is the one expected to fire; see meta.json).", "",
             "| change | " + " | ".join(PROPS) + " |", "|---|" + "---|" * len(PROPS)]
    for name in sorted(results):
        meta = json.load(open(os.path.join(root, name, "meta.json")))
        row = []
        for p in PROPS:
            r = results[name].get(p)
            c = "?" if r is None else {0: ".", 1: "V", 2: "E"}.get(r["exit"], str(r["exit"]))
            row.append(f"[{c}]" if p == meta.get("detected_by", meta["property"]) else (f"({c})" if p == meta["property"] else c))
        lines.append(f"| {name} | " + " | ".join(row) + " |")
    lines += ["", "## First oracle reported by the target check", ""]
    for name in sorted(results):
        meta = json.load(open(os.path.join(root, name, "meta.json")))
        tgt = meta.get("detected_by", meta["property"])
        r = results[name].get(tgt) or {}
        extra = " - OUTSIDE the property as stated (see meta.json), not expected to fire" if meta.get("outside_property") else ""
        lines.append(f"* **{name}** ({meta['property']}, judged by {tgt}){extra}: needs: {meta.get('needs_to_manifest')}  ")
        lines.append(f"  reported: `{((r.get('oracles') or ['-'])[0])[:300]}`")
    lines += ["", "## Alarms raised by checks other than the target", ""]
    for name in sorted(results):
        meta = json.load(open(os.path.join(root, name, "meta.json")))
        for p in PROPS:
            r = results[name].get(p)
            if r and p not in (meta["property"], meta.get("detected_by")) and r["exit"] != 0:
                lines.append(f"* {name} -> {p} exit {r['exit']}: `{((r.get('oracles') or r.get('tail') or ['-'])[0])[:260]}`")
    with open(os.path.join(root, "RESULTS.md"), "w") as f:
        f.write("\n".join(lines) + "\n")


def main(argv):
    if argv[0] == "confirm":
        print(json.dumps(confirm(argv[1]), indent=1))
    elif argv[0] == "check":
        r = check(argv[1], argv[2], argv[3] if len(argv) > 3 else "quick")
        r.pop("replay", None)
        print(json.dumps(r, indent=1))
    elif argv[0] == "matrix":
        return matrix(argv[1:])
    elif argv[0] == "all":
        root = os.path.join(VERIF, "seeded")
        rows = []
        for name in sorted(os.listdir(root)):
            d = os.path.join(root, name)
            if not os.path.isdir(d):
                continue
            meta = json.load(open(os.path.join(d, "meta.json")))
            c = confirm(d)
            k = check(d, meta.get("detected_by", meta["property"]))
            rows.append((name, meta["property"], c.get("confirmed"), k["exit"], (k["oracles"] or [""])[0][:100],
                         bool(meta.get("outside_property"))))
            print(rows[-1])
            sys.stdout.flush()
        bad = [r for r in rows if not (r[2] and (r[3] == 1 or r[5]))]
        print(f"{len(rows) - len(bad)}/{len(rows)} seeded changes confirmed and detected")
        return 0 if not bad else 1
    return 0


if __name__ == "__main__":
    sys.exit(main(sys.argv[1:]))
