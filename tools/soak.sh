#!/bin/sh
# soak: quick tier of every check over a range of VERIF_SEED values; prints one line per (seed, property)
# usage: tools/soak.sh <first> <last> [tier]
cd "$(dirname "$0")/.." || exit 2
OUT=$(mktemp -d /tmp/cardsim-soak-XXXXXX)
export CARDSIM_OUT="$OUT"
TIER=${3:-quick}
bad=0
for s in $(seq "$1" "$2"); do
  for p in C03 C04 C05 C06 C07 C08 C09 C10 C11; do
    VERIF_SEED=$s ./check $p --tier "$TIER" > "$OUT/log" 2>&1
    rc=$?
    echo "seed=$s $p exit=$rc $(tail -2 "$OUT/log" | head -1 | cut -c1-150)"
    if [ $rc -ne 0 ]; then bad=$((bad+1)); grep -E "VIOLATION|HARNESS|oracle|signature" "$OUT/log" | head -8; cp "$OUT"/replays/*.json /tmp/ 2>/dev/null; fi
  done
done
rm -rf "$OUT"
echo "soak done: $bad non-zero exits"
[ $bad -eq 0 ]
