#!/bin/sh
# thorough tier of every check for one VERIF_SEED on the unchanged tree (time-boxed per check)
cd "$(dirname "$0")/.." || exit 2
OUT=$(mktemp -d /tmp/cardsim-soakt-XXXXXX)
export CARDSIM_OUT="$OUT"
bad=0
for p in C03 C04 C05 C11 C06 C09 C10 C07 C08; do
  VERIF_SEED=${1:-3} VERIF_BUDGET_S=${2:-300} ./check $p --tier thorough > "$OUT/log" 2>&1
  rc=$?
  echo "seed=${1:-3} $p exit=$rc $(tail -2 "$OUT/log" | head -1 | cut -c1-150)"
  if [ $rc -ne 0 ]; then bad=$((bad+1)); grep -E "VIOLATION|HARNESS|oracle|signature" "$OUT/log" | head -8; cp "$OUT"/replays/*.json /tmp/ 2>/dev/null; fi
done
rm -rf "$OUT"
echo "thorough soak done: $bad non-zero exits"
[ $bad -eq 0 ]
