#!/usr/bin/env python3
"""Regenerates /verif/MANIFEST.json from the table below (single source of truth).

Run: /venv/bin/python tools/gen_manifest.py   (cwd /verif)
CLAIMED lists only properties whose check is implemented and passing on the current tree.
"""
import json
import os

HERE = os.path.dirname(os.path.dirname(os.path.abspath(__file__)))

NA = {
    "C01": "loads(dumps(m)) is a pure function of (message, encoding, config, bitmap flag): no history, schedule, crash point or fault is quantified; deciding it is input generation, not simulation (DESIGN.md 2.2).",
    "C02": "byte-for-byte conformance of dumps/loads to the documented layout is a differential check of a pure function over inputs and configurations; nothing to schedule or inject (DESIGN.md 2.2).",
    "C12": "PDS packing into carrier elements is a pure function of the set of PDS values; the boundary sweep it asks for is input enumeration (DESIGN.md 2.2).",
    "C13": "PIN-block construction is pure arithmetic on (PIN, PAN, key); its single random draw has no schedule or fault to interleave with (DESIGN.md 2.2).",
    "C14": "PVV, KCV and key-part XOR are pure functions checked against published algorithms; no state, time, I/O or multi-party behaviour (DESIGN.md 2.2).",
    "C15": "Luhn is a pure function; 'also under python -O' is an interpreter configuration, not a fault or schedule (DESIGN.md 2.2).",
    "C16": "mask() and the PAN / PAN-PREFIX processors are pure functions of the card number / message bytes (DESIGN.md 2.2).",
    "C17": "ipm_info is one stateless call over the first 2500 bytes and the property quantifies only over writer-produced inputs (DESIGN.md 2.2).",
    "C18": "IpmParamReader output is a function of file content and layout table; the property quantifies over inputs and configurations only (DESIGN.md 2.2).",
    "C19": "the conversion tools are a deterministic reader-to-writer pipe; the property quantifies over input files and option combinations only, so a simulation would consist of its control arm alone (DESIGN.md 2.2).",
    "C20": "CSV to IPM to CSV is a function of the CSV text, encoding and blocking options; no history, crash point or fault is quantified (DESIGN.md 2.2).",
}

# id -> (level category, level text, level note, technique, design ref)
CLAIMED = {}

NOT_YET = {}


def load_claims():
    path = os.path.join(HERE, "tools", "claims.json")
    if os.path.exists(path):
        with open(path) as f:
            data = json.load(f)
        CLAIMED.update(data.get("claimed", {}))
        NOT_YET.update(data.get("not_yet", {}))


def main():
    load_claims()
    checks = []
    for pid in sorted(CLAIMED):
        c = CLAIMED[pid]
        checks.append({
            "property_id": pid,
            "quick_cmd": f"./check {pid} --tier quick",
            "thorough_cmd": f"./check {pid} --tier thorough",
            "evidence_file": f"evidence/{pid}.json",
            "replay_cmd_template": "./check replay {path}",
            "engine": "cardsim",
            "level_claimed": {"category": c["category"], "text": c["text"], "design_ref": c["design_ref"]},
            "level_note": c["note"],
            "technique": c["technique"],
        })
    na = [{"property_id": k, "reason": v} for k, v in sorted(NA.items())]
    for k, v in sorted(NOT_YET.items()):
        if k not in CLAIMED:
            na.append({"property_id": k, "reason": v})
    na.sort(key=lambda d: d["property_id"])
    manifest = {
        "version": 1,
        "setup_cmd": "./check setup",
        "hooks": {
            "guard": "CARDSIM_VERIF",
            "enable": "none needed: every seam the simulator uses already exists (file-object constructor arguments, module attribute `open` of the two tools, config knob); the guard name is declared but no guarded code exists in /repo",
            "baseline_off_cmd": "cd /repo && /venv/bin/python -m pytest -ra -q -p no:cacheprovider --timeout=900 --continue-on-collection-errors",
            "source_commits": [],
            "add_only": True,
        },
        "engines": [{
            "name": "cardsim",
            "path": "cardsim/",
            "serves_properties": sorted(CLAIMED),
            "kind_free_text": "deterministic simulation with fault injection: seeded scenario generator (one integer decides every operation, fault and schedule), pure executor over real cardutil objects on a simulated storage seam (crash budget, image faults), op-level and line-level (baton-passing threads) schedulers, deterministic step budget, reference models as oracles, ddmin minimiser, replay files",
        }],
        "checks": checks,
        "not_applicable": na,
        "notes": "Technique: deterministic simulation with fault injection only. See DESIGN.md. Exit codes of ./check: 0 held, 1 violation (VIOLATION line), 2 harness error (never a pass).",
    }
    with open(os.path.join(HERE, "MANIFEST.json"), "w") as f:
        json.dump(manifest, f, indent=1)
        f.write("\n")


if __name__ == "__main__":
    main()
